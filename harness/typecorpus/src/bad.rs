#![allow(unused)]
fn mk<T>() -> T { unimplemented!() }

pub fn p0() {
    let a: re::math::mat::Mat4x4<re::render::ModelToProj> = mk();
    let b: re::math::mat::Mat4x4<re::render::ModelToProj> = mk();
    let _ = a.then(&b);
}

pub fn p1() {
    let a: re::math::mat::Mat4x4<re::render::ModelToProj> = mk();
    let b: re::math::mat::Mat4x4<re::render::ModelToView> = mk();
    let _ = a.then(&b);
}

pub fn p2() {
    let a: re::math::mat::Mat4x4<re::render::ModelToProj> = mk();
    let b: re::math::mat::Mat4x4<re::render::ModelToWorld> = mk();
    let _ = a.then(&b);
}

pub fn p3() {
    let a: re::math::mat::Mat4x4<re::render::ModelToProj> = mk();
    let b: re::math::mat::Mat4x4<re::render::ViewToProj> = mk();
    let _ = a.then(&b);
}

pub fn p4() {
    let a: re::math::mat::Mat4x4<re::render::ModelToProj> = mk();
    let b: re::math::mat::Mat4x4<re::render::WorldToView> = mk();
    let _ = a.then(&b);
}

pub fn p5() {
    let a: re::math::mat::Mat4x4<re::render::ModelToProj> = mk();
    let b: re::math::mat::Mat4x4<re::math::mat::RealToReal<3, re::render::Model, re::render::Model>> = mk();
    let _ = [a, b];
}

pub fn p6() {
    let a: re::math::mat::Mat4x4<re::render::ModelToProj> = mk();
    let b: re::math::mat::Mat4x4<re::math::mat::RealToReal<3, re::render::Model, re::render::View>> = mk();
    let _ = [a, b];
}

pub fn p7() {
    let a: re::math::mat::Mat4x4<re::render::ModelToProj> = mk();
    let b: re::math::mat::Mat4x4<re::math::mat::RealToReal<3, re::render::Model, re::render::World>> = mk();
    let _ = [a, b];
}

pub fn p8() {
    let a: re::math::mat::Mat4x4<re::render::ModelToProj> = mk();
    let b: re::math::mat::Mat4x4<re::math::mat::RealToReal<3, re::render::View, re::render::Model>> = mk();
    let _ = [a, b];
}

pub fn p9() {
    let a: re::math::mat::Mat4x4<re::render::ModelToProj> = mk();
    let b: re::math::mat::Mat4x4<re::math::mat::RealToReal<3, re::render::View, re::render::View>> = mk();
    let _ = [a, b];
}

pub fn p10() {
    let a: re::math::mat::Mat4x4<re::render::ModelToProj> = mk();
    let b: re::math::mat::Mat4x4<re::math::mat::RealToReal<3, re::render::View, re::render::World>> = mk();
    let _ = [a, b];
}

pub fn p11() {
    let a: re::math::mat::Mat4x4<re::render::ModelToProj> = mk();
    let b: re::math::mat::Mat4x4<re::math::mat::RealToReal<3, re::render::World, re::render::Model>> = mk();
    let _ = [a, b];
}

pub fn p12() {
    let a: re::math::mat::Mat4x4<re::render::ModelToProj> = mk();
    let b: re::math::mat::Mat4x4<re::math::mat::RealToReal<3, re::render::World, re::render::View>> = mk();
    let _ = [a, b];
}

pub fn p13() {
    let a: re::math::mat::Mat4x4<re::render::ModelToProj> = mk();
    let b: re::math::mat::Mat4x4<re::math::mat::RealToReal<3, re::render::World, re::render::World>> = mk();
    let _ = [a, b];
}

pub fn p15() {
    let a: re::math::mat::Mat4x4<re::render::ModelToProj> = mk();
    let b: re::math::mat::Mat4x4<re::math::mat::RealToProj<re::render::View>> = mk();
    let _ = [a, b];
}

pub fn p16() {
    let a: re::math::mat::Mat4x4<re::render::ModelToProj> = mk();
    let b: re::math::mat::Mat4x4<re::math::mat::RealToProj<re::render::World>> = mk();
    let _ = [a, b];
}

pub fn p18() {
    let a: re::math::mat::Mat4x4<re::render::ModelToProj> = mk();
    let b: re::math::point::Point3<re::render::Model> = mk();
    let _ = a.apply_pt(&b);
}

pub fn p19() {
    let a: re::math::mat::Mat4x4<re::render::ModelToProj> = mk();
    let b: re::math::point::Point3<re::render::View> = mk();
    let _ = a.apply(&b);
}

pub fn p20() {
    let a: re::math::mat::Mat4x4<re::render::ModelToProj> = mk();
    let b: re::math::point::Point3<re::render::View> = mk();
    let _ = a.apply_pt(&b);
}

pub fn p21() {
    let a: re::math::mat::Mat4x4<re::render::ModelToProj> = mk();
    let b: re::math::point::Point3<re::render::World> = mk();
    let _ = a.apply(&b);
}

pub fn p22() {
    let a: re::math::mat::Mat4x4<re::render::ModelToProj> = mk();
    let b: re::math::point::Point3<re::render::World> = mk();
    let _ = a.apply_pt(&b);
}

pub fn p23() {
    let a: re::math::mat::Mat4x4<re::render::ModelToProj> = mk();
    let _ = re::render::cam::Camera::new((8, 8)).mode(a);
}

pub fn p25() {
    let a: re::math::mat::Mat4x4<re::render::ModelToView> = mk();
    let b: re::math::mat::Mat4x4<re::render::ModelToProj> = mk();
    let _ = a.then(&b);
}

pub fn p26() {
    let a: re::math::mat::Mat4x4<re::render::ModelToView> = mk();
    let b: re::math::mat::Mat4x4<re::render::ModelToView> = mk();
    let _ = a.then(&b);
}

pub fn p27() {
    let a: re::math::mat::Mat4x4<re::render::ModelToView> = mk();
    let b: re::math::mat::Mat4x4<re::render::ModelToWorld> = mk();
    let _ = a.then(&b);
}

pub fn p29() {
    let a: re::math::mat::Mat4x4<re::render::ModelToView> = mk();
    let b: re::math::mat::Mat4x4<re::render::WorldToView> = mk();
    let _ = a.then(&b);
}

pub fn p30() {
    let a: re::math::mat::Mat4x4<re::render::ModelToView> = mk();
    let b: re::math::mat::Mat4x4<re::math::mat::RealToReal<3, re::render::Model, re::render::Model>> = mk();
    let _ = [a, b];
}

pub fn p32() {
    let a: re::math::mat::Mat4x4<re::render::ModelToView> = mk();
    let b: re::math::mat::Mat4x4<re::math::mat::RealToReal<3, re::render::Model, re::render::World>> = mk();
    let _ = [a, b];
}

pub fn p33() {
    let a: re::math::mat::Mat4x4<re::render::ModelToView> = mk();
    let b: re::math::mat::Mat4x4<re::math::mat::RealToReal<3, re::render::View, re::render::Model>> = mk();
    let _ = [a, b];
}

pub fn p34() {
    let a: re::math::mat::Mat4x4<re::render::ModelToView> = mk();
    let b: re::math::mat::Mat4x4<re::math::mat::RealToReal<3, re::render::View, re::render::View>> = mk();
    let _ = [a, b];
}

pub fn p35() {
    let a: re::math::mat::Mat4x4<re::render::ModelToView> = mk();
    let b: re::math::mat::Mat4x4<re::math::mat::RealToReal<3, re::render::View, re::render::World>> = mk();
    let _ = [a, b];
}

pub fn p36() {
    let a: re::math::mat::Mat4x4<re::render::ModelToView> = mk();
    let b: re::math::mat::Mat4x4<re::math::mat::RealToReal<3, re::render::World, re::render::Model>> = mk();
    let _ = [a, b];
}

pub fn p37() {
    let a: re::math::mat::Mat4x4<re::render::ModelToView> = mk();
    let b: re::math::mat::Mat4x4<re::math::mat::RealToReal<3, re::render::World, re::render::View>> = mk();
    let _ = [a, b];
}

pub fn p38() {
    let a: re::math::mat::Mat4x4<re::render::ModelToView> = mk();
    let b: re::math::mat::Mat4x4<re::math::mat::RealToReal<3, re::render::World, re::render::World>> = mk();
    let _ = [a, b];
}

pub fn p39() {
    let a: re::math::mat::Mat4x4<re::render::ModelToView> = mk();
    let b: re::math::mat::Mat4x4<re::math::mat::RealToProj<re::render::Model>> = mk();
    let _ = [a, b];
}

pub fn p40() {
    let a: re::math::mat::Mat4x4<re::render::ModelToView> = mk();
    let b: re::math::mat::Mat4x4<re::math::mat::RealToProj<re::render::View>> = mk();
    let _ = [a, b];
}

pub fn p41() {
    let a: re::math::mat::Mat4x4<re::render::ModelToView> = mk();
    let b: re::math::mat::Mat4x4<re::math::mat::RealToProj<re::render::World>> = mk();
    let _ = [a, b];
}

pub fn p42() {
    let a: re::math::mat::Mat4x4<re::render::ModelToView> = mk();
    let b: re::math::point::Point3<re::render::Model> = mk();
    let _ = a.apply(&b);
}

pub fn p44() {
    let a: re::math::mat::Mat4x4<re::render::ModelToView> = mk();
    let b: re::math::point::Point3<re::render::View> = mk();
    let _ = a.apply(&b);
}

pub fn p45() {
    let a: re::math::mat::Mat4x4<re::render::ModelToView> = mk();
    let b: re::math::point::Point3<re::render::View> = mk();
    let _ = a.apply_pt(&b);
}

pub fn p46() {
    let a: re::math::mat::Mat4x4<re::render::ModelToView> = mk();
    let b: re::math::point::Point3<re::render::World> = mk();
    let _ = a.apply(&b);
}

pub fn p47() {
    let a: re::math::mat::Mat4x4<re::render::ModelToView> = mk();
    let b: re::math::point::Point3<re::render::World> = mk();
    let _ = a.apply_pt(&b);
}

pub fn p48() {
    let a: re::math::mat::Mat4x4<re::render::ModelToView> = mk();
    let _ = re::render::cam::Camera::new((8, 8)).mode(a);
}

pub fn p50() {
    let a: re::math::mat::Mat4x4<re::render::ModelToWorld> = mk();
    let b: re::math::mat::Mat4x4<re::render::ModelToProj> = mk();
    let _ = a.then(&b);
}

pub fn p51() {
    let a: re::math::mat::Mat4x4<re::render::ModelToWorld> = mk();
    let b: re::math::mat::Mat4x4<re::render::ModelToView> = mk();
    let _ = a.then(&b);
}

pub fn p52() {
    let a: re::math::mat::Mat4x4<re::render::ModelToWorld> = mk();
    let b: re::math::mat::Mat4x4<re::render::ModelToWorld> = mk();
    let _ = a.then(&b);
}

pub fn p53() {
    let a: re::math::mat::Mat4x4<re::render::ModelToWorld> = mk();
    let b: re::math::mat::Mat4x4<re::render::ViewToProj> = mk();
    let _ = a.then(&b);
}

pub fn p55() {
    let a: re::math::mat::Mat4x4<re::render::ModelToWorld> = mk();
    let b: re::math::mat::Mat4x4<re::math::mat::RealToReal<3, re::render::Model, re::render::Model>> = mk();
    let _ = [a, b];
}

pub fn p56() {
    let a: re::math::mat::Mat4x4<re::render::ModelToWorld> = mk();
    let b: re::math::mat::Mat4x4<re::math::mat::RealToReal<3, re::render::Model, re::render::View>> = mk();
    let _ = [a, b];
}

pub fn p58() {
    let a: re::math::mat::Mat4x4<re::render::ModelToWorld> = mk();
    let b: re::math::mat::Mat4x4<re::math::mat::RealToReal<3, re::render::View, re::render::Model>> = mk();
    let _ = [a, b];
}

pub fn p59() {
    let a: re::math::mat::Mat4x4<re::render::ModelToWorld> = mk();
    let b: re::math::mat::Mat4x4<re::math::mat::RealToReal<3, re::render::View, re::render::View>> = mk();
    let _ = [a, b];
}

pub fn p60() {
    let a: re::math::mat::Mat4x4<re::render::ModelToWorld> = mk();
    let b: re::math::mat::Mat4x4<re::math::mat::RealToReal<3, re::render::View, re::render::World>> = mk();
    let _ = [a, b];
}

pub fn p61() {
    let a: re::math::mat::Mat4x4<re::render::ModelToWorld> = mk();
    let b: re::math::mat::Mat4x4<re::math::mat::RealToReal<3, re::render::World, re::render::Model>> = mk();
    let _ = [a, b];
}

pub fn p62() {
    let a: re::math::mat::Mat4x4<re::render::ModelToWorld> = mk();
    let b: re::math::mat::Mat4x4<re::math::mat::RealToReal<3, re::render::World, re::render::View>> = mk();
    let _ = [a, b];
}

pub fn p63() {
    let a: re::math::mat::Mat4x4<re::render::ModelToWorld> = mk();
    let b: re::math::mat::Mat4x4<re::math::mat::RealToReal<3, re::render::World, re::render::World>> = mk();
    let _ = [a, b];
}

pub fn p64() {
    let a: re::math::mat::Mat4x4<re::render::ModelToWorld> = mk();
    let b: re::math::mat::Mat4x4<re::math::mat::RealToProj<re::render::Model>> = mk();
    let _ = [a, b];
}

pub fn p65() {
    let a: re::math::mat::Mat4x4<re::render::ModelToWorld> = mk();
    let b: re::math::mat::Mat4x4<re::math::mat::RealToProj<re::render::View>> = mk();
    let _ = [a, b];
}

pub fn p66() {
    let a: re::math::mat::Mat4x4<re::render::ModelToWorld> = mk();
    let b: re::math::mat::Mat4x4<re::math::mat::RealToProj<re::render::World>> = mk();
    let _ = [a, b];
}

pub fn p67() {
    let a: re::math::mat::Mat4x4<re::render::ModelToWorld> = mk();
    let b: re::math::point::Point3<re::render::Model> = mk();
    let _ = a.apply(&b);
}

pub fn p69() {
    let a: re::math::mat::Mat4x4<re::render::ModelToWorld> = mk();
    let b: re::math::point::Point3<re::render::View> = mk();
    let _ = a.apply(&b);
}

pub fn p70() {
    let a: re::math::mat::Mat4x4<re::render::ModelToWorld> = mk();
    let b: re::math::point::Point3<re::render::View> = mk();
    let _ = a.apply_pt(&b);
}

pub fn p71() {
    let a: re::math::mat::Mat4x4<re::render::ModelToWorld> = mk();
    let b: re::math::point::Point3<re::render::World> = mk();
    let _ = a.apply(&b);
}

pub fn p72() {
    let a: re::math::mat::Mat4x4<re::render::ModelToWorld> = mk();
    let b: re::math::point::Point3<re::render::World> = mk();
    let _ = a.apply_pt(&b);
}

pub fn p73() {
    let a: re::math::mat::Mat4x4<re::render::ModelToWorld> = mk();
    let _ = re::render::cam::Camera::new((8, 8)).mode(a);
}

pub fn p75() {
    let a: re::math::mat::Mat4x4<re::render::ViewToProj> = mk();
    let b: re::math::mat::Mat4x4<re::render::ModelToProj> = mk();
    let _ = a.then(&b);
}

pub fn p76() {
    let a: re::math::mat::Mat4x4<re::render::ViewToProj> = mk();
    let b: re::math::mat::Mat4x4<re::render::ModelToView> = mk();
    let _ = a.then(&b);
}

pub fn p77() {
    let a: re::math::mat::Mat4x4<re::render::ViewToProj> = mk();
    let b: re::math::mat::Mat4x4<re::render::ModelToWorld> = mk();
    let _ = a.then(&b);
}

pub fn p78() {
    let a: re::math::mat::Mat4x4<re::render::ViewToProj> = mk();
    let b: re::math::mat::Mat4x4<re::render::ViewToProj> = mk();
    let _ = a.then(&b);
}

pub fn p79() {
    let a: re::math::mat::Mat4x4<re::render::ViewToProj> = mk();
    let b: re::math::mat::Mat4x4<re::render::WorldToView> = mk();
    let _ = a.then(&b);
}

pub fn p80() {
    let a: re::math::mat::Mat4x4<re::render::ViewToProj> = mk();
    let b: re::math::mat::Mat4x4<re::math::mat::RealToReal<3, re::render::Model, re::render::Model>> = mk();
    let _ = [a, b];
}

pub fn p81() {
    let a: re::math::mat::Mat4x4<re::render::ViewToProj> = mk();
    let b: re::math::mat::Mat4x4<re::math::mat::RealToReal<3, re::render::Model, re::render::View>> = mk();
    let _ = [a, b];
}

pub fn p82() {
    let a: re::math::mat::Mat4x4<re::render::ViewToProj> = mk();
    let b: re::math::mat::Mat4x4<re::math::mat::RealToReal<3, re::render::Model, re::render::World>> = mk();
    let _ = [a, b];
}

pub fn p83() {
    let a: re::math::mat::Mat4x4<re::render::ViewToProj> = mk();
    let b: re::math::mat::Mat4x4<re::math::mat::RealToReal<3, re::render::View, re::render::Model>> = mk();
    let _ = [a, b];
}

pub fn p84() {
    let a: re::math::mat::Mat4x4<re::render::ViewToProj> = mk();
    let b: re::math::mat::Mat4x4<re::math::mat::RealToReal<3, re::render::View, re::render::View>> = mk();
    let _ = [a, b];
}

pub fn p85() {
    let a: re::math::mat::Mat4x4<re::render::ViewToProj> = mk();
    let b: re::math::mat::Mat4x4<re::math::mat::RealToReal<3, re::render::View, re::render::World>> = mk();
    let _ = [a, b];
}

pub fn p86() {
    let a: re::math::mat::Mat4x4<re::render::ViewToProj> = mk();
    let b: re::math::mat::Mat4x4<re::math::mat::RealToReal<3, re::render::World, re::render::Model>> = mk();
    let _ = [a, b];
}

pub fn p87() {
    let a: re::math::mat::Mat4x4<re::render::ViewToProj> = mk();
    let b: re::math::mat::Mat4x4<re::math::mat::RealToReal<3, re::render::World, re::render::View>> = mk();
    let _ = [a, b];
}

pub fn p88() {
    let a: re::math::mat::Mat4x4<re::render::ViewToProj> = mk();
    let b: re::math::mat::Mat4x4<re::math::mat::RealToReal<3, re::render::World, re::render::World>> = mk();
    let _ = [a, b];
}

pub fn p89() {
    let a: re::math::mat::Mat4x4<re::render::ViewToProj> = mk();
    let b: re::math::mat::Mat4x4<re::math::mat::RealToProj<re::render::Model>> = mk();
    let _ = [a, b];
}

pub fn p91() {
    let a: re::math::mat::Mat4x4<re::render::ViewToProj> = mk();
    let b: re::math::mat::Mat4x4<re::math::mat::RealToProj<re::render::World>> = mk();
    let _ = [a, b];
}

pub fn p92() {
    let a: re::math::mat::Mat4x4<re::render::ViewToProj> = mk();
    let b: re::math::point::Point3<re::render::Model> = mk();
    let _ = a.apply(&b);
}

pub fn p93() {
    let a: re::math::mat::Mat4x4<re::render::ViewToProj> = mk();
    let b: re::math::point::Point3<re::render::Model> = mk();
    let _ = a.apply_pt(&b);
}

pub fn p95() {
    let a: re::math::mat::Mat4x4<re::render::ViewToProj> = mk();
    let b: re::math::point::Point3<re::render::View> = mk();
    let _ = a.apply_pt(&b);
}

pub fn p96() {
    let a: re::math::mat::Mat4x4<re::render::ViewToProj> = mk();
    let b: re::math::point::Point3<re::render::World> = mk();
    let _ = a.apply(&b);
}

pub fn p97() {
    let a: re::math::mat::Mat4x4<re::render::ViewToProj> = mk();
    let b: re::math::point::Point3<re::render::World> = mk();
    let _ = a.apply_pt(&b);
}

pub fn p98() {
    let a: re::math::mat::Mat4x4<re::render::ViewToProj> = mk();
    let _ = re::render::cam::Camera::new((8, 8)).mode(a);
}

pub fn p100() {
    let a: re::math::mat::Mat4x4<re::render::WorldToView> = mk();
    let b: re::math::mat::Mat4x4<re::render::ModelToProj> = mk();
    let _ = a.then(&b);
}

pub fn p101() {
    let a: re::math::mat::Mat4x4<re::render::WorldToView> = mk();
    let b: re::math::mat::Mat4x4<re::render::ModelToView> = mk();
    let _ = a.then(&b);
}

pub fn p102() {
    let a: re::math::mat::Mat4x4<re::render::WorldToView> = mk();
    let b: re::math::mat::Mat4x4<re::render::ModelToWorld> = mk();
    let _ = a.then(&b);
}

pub fn p104() {
    let a: re::math::mat::Mat4x4<re::render::WorldToView> = mk();
    let b: re::math::mat::Mat4x4<re::render::WorldToView> = mk();
    let _ = a.then(&b);
}

pub fn p105() {
    let a: re::math::mat::Mat4x4<re::render::WorldToView> = mk();
    let b: re::math::mat::Mat4x4<re::math::mat::RealToReal<3, re::render::Model, re::render::Model>> = mk();
    let _ = [a, b];
}

pub fn p106() {
    let a: re::math::mat::Mat4x4<re::render::WorldToView> = mk();
    let b: re::math::mat::Mat4x4<re::math::mat::RealToReal<3, re::render::Model, re::render::View>> = mk();
    let _ = [a, b];
}

pub fn p107() {
    let a: re::math::mat::Mat4x4<re::render::WorldToView> = mk();
    let b: re::math::mat::Mat4x4<re::math::mat::RealToReal<3, re::render::Model, re::render::World>> = mk();
    let _ = [a, b];
}

pub fn p108() {
    let a: re::math::mat::Mat4x4<re::render::WorldToView> = mk();
    let b: re::math::mat::Mat4x4<re::math::mat::RealToReal<3, re::render::View, re::render::Model>> = mk();
    let _ = [a, b];
}

pub fn p109() {
    let a: re::math::mat::Mat4x4<re::render::WorldToView> = mk();
    let b: re::math::mat::Mat4x4<re::math::mat::RealToReal<3, re::render::View, re::render::View>> = mk();
    let _ = [a, b];
}

pub fn p110() {
    let a: re::math::mat::Mat4x4<re::render::WorldToView> = mk();
    let b: re::math::mat::Mat4x4<re::math::mat::RealToReal<3, re::render::View, re::render::World>> = mk();
    let _ = [a, b];
}

pub fn p111() {
    let a: re::math::mat::Mat4x4<re::render::WorldToView> = mk();
    let b: re::math::mat::Mat4x4<re::math::mat::RealToReal<3, re::render::World, re::render::Model>> = mk();
    let _ = [a, b];
}

pub fn p113() {
    let a: re::math::mat::Mat4x4<re::render::WorldToView> = mk();
    let b: re::math::mat::Mat4x4<re::math::mat::RealToReal<3, re::render::World, re::render::World>> = mk();
    let _ = [a, b];
}

pub fn p114() {
    let a: re::math::mat::Mat4x4<re::render::WorldToView> = mk();
    let b: re::math::mat::Mat4x4<re::math::mat::RealToProj<re::render::Model>> = mk();
    let _ = [a, b];
}

pub fn p115() {
    let a: re::math::mat::Mat4x4<re::render::WorldToView> = mk();
    let b: re::math::mat::Mat4x4<re::math::mat::RealToProj<re::render::View>> = mk();
    let _ = [a, b];
}

pub fn p116() {
    let a: re::math::mat::Mat4x4<re::render::WorldToView> = mk();
    let b: re::math::mat::Mat4x4<re::math::mat::RealToProj<re::render::World>> = mk();
    let _ = [a, b];
}

pub fn p117() {
    let a: re::math::mat::Mat4x4<re::render::WorldToView> = mk();
    let b: re::math::point::Point3<re::render::Model> = mk();
    let _ = a.apply(&b);
}

pub fn p118() {
    let a: re::math::mat::Mat4x4<re::render::WorldToView> = mk();
    let b: re::math::point::Point3<re::render::Model> = mk();
    let _ = a.apply_pt(&b);
}

pub fn p119() {
    let a: re::math::mat::Mat4x4<re::render::WorldToView> = mk();
    let b: re::math::point::Point3<re::render::View> = mk();
    let _ = a.apply(&b);
}

pub fn p120() {
    let a: re::math::mat::Mat4x4<re::render::WorldToView> = mk();
    let b: re::math::point::Point3<re::render::View> = mk();
    let _ = a.apply_pt(&b);
}

pub fn p121() {
    let a: re::math::mat::Mat4x4<re::render::WorldToView> = mk();
    let b: re::math::point::Point3<re::render::World> = mk();
    let _ = a.apply(&b);
}

pub fn p125() {
    let a: re::math::angle::Angle = mk();
    let b: re::math::angle::Angle = mk();
    let _ = a / b;
}

pub fn p126() {
    let a: re::math::angle::Angle = mk();
    let b: re::math::angle::Angle = mk();
    let _ = a * b;
}

pub fn p130() {
    let a: re::math::angle::Angle = mk();
    let b: f32 = mk();
    let _ = a + b;
}

pub fn p131() {
    let a: re::math::angle::Angle = mk();
    let b: f32 = mk();
    let _ = a % b;
}

pub fn p132() {
    let a: re::math::angle::Angle = mk();
    let b: f32 = mk();
    let _ = a - b;
}

pub fn p139() {
    let a: re::math::color::Color3f<re::math::color::Hsl> = mk();
    let b: re::math::color::Color3f<re::math::color::Hsl> = mk();
    let c: re::math::color::Color3f<re::math::color::Rgb> = mk();
    let d = re::math::space::Affine::sub(&a, &b);
    let _ = re::math::space::Affine::add(&c, &d);
}

pub fn p140() {
    let a: re::math::color::Color3f<re::math::color::Hsl> = mk();
    let b: re::math::color::Color3f<re::math::color::Hsl> = mk();
    let c: re::math::color::Color3<re::math::color::Hsl> = mk();
    let d = re::math::space::Affine::sub(&a, &b);
    let _ = re::math::space::Affine::add(&c, &d);
}

pub fn p141() {
    let a: re::math::color::Color3f<re::math::color::Hsl> = mk();
    let b: re::math::color::Color3f<re::math::color::Hsl> = mk();
    let c: re::math::color::Color3<re::math::color::Rgb> = mk();
    let d = re::math::space::Affine::sub(&a, &b);
    let _ = re::math::space::Affine::add(&c, &d);
}

pub fn p145() {
    let a: re::math::color::Color3f<re::math::color::Hsl> = mk();
    let b: re::math::color::Color3f<re::math::color::LinRgb> = mk();
    let _ = re::math::space::Affine::add(&a, &b);
}

pub fn p146() {
    let a: re::math::color::Color3f<re::math::color::Hsl> = mk();
    let b: re::math::color::Color3f<re::math::color::LinRgb> = mk();
    let _ = re::math::space::Affine::sub(&a, &b);
}

pub fn p147() {
    let a: re::math::color::Color3f<re::math::color::Hsl> = mk();
    let b: re::math::color::Color3f<re::math::color::LinRgb> = mk();
    let _ = re::math::Lerp::lerp(&a, &b, 0.5);
}

pub fn p148() {
    let a: re::math::color::Color3f<re::math::color::Hsl> = mk();
    let b: re::math::color::Color3f<re::math::color::Rgb> = mk();
    let c: re::math::color::Color3f<re::math::color::Hsl> = mk();
    let d = re::math::space::Affine::sub(&a, &b);
    let _ = re::math::space::Affine::add(&c, &d);
}

pub fn p149() {
    let a: re::math::color::Color3f<re::math::color::Hsl> = mk();
    let b: re::math::color::Color3f<re::math::color::Rgb> = mk();
    let c: re::math::color::Color3f<re::math::color::Rgb> = mk();
    let d = re::math::space::Affine::sub(&a, &b);
    let _ = re::math::space::Affine::add(&c, &d);
}

pub fn p150() {
    let a: re::math::color::Color3f<re::math::color::Hsl> = mk();
    let b: re::math::color::Color3f<re::math::color::Rgb> = mk();
    let c: re::math::color::Color3<re::math::color::Hsl> = mk();
    let d = re::math::space::Affine::sub(&a, &b);
    let _ = re::math::space::Affine::add(&c, &d);
}

pub fn p151() {
    let a: re::math::color::Color3f<re::math::color::Hsl> = mk();
    let b: re::math::color::Color3f<re::math::color::Rgb> = mk();
    let c: re::math::color::Color3<re::math::color::Rgb> = mk();
    let d = re::math::space::Affine::sub(&a, &b);
    let _ = re::math::space::Affine::add(&c, &d);
}

pub fn p152() {
    let a: re::math::color::Color3f<re::math::color::Hsl> = mk();
    let b: re::math::color::Color3f<re::math::color::Rgb> = mk();
    let _ = re::math::space::Affine::add(&a, &b);
}

pub fn p153() {
    let a: re::math::color::Color3f<re::math::color::Hsl> = mk();
    let b: re::math::color::Color3f<re::math::color::Rgb> = mk();
    let _ = re::math::space::Affine::sub(&a, &b);
}

pub fn p154() {
    let a: re::math::color::Color3f<re::math::color::Hsl> = mk();
    let b: re::math::color::Color3f<re::math::color::Rgb> = mk();
    let _ = re::math::Lerp::lerp(&a, &b, 0.5);
}

pub fn p155() {
    let a: re::math::color::Color3f<re::math::color::Hsl> = mk();
    let b: re::math::color::Color3<re::math::color::Hsl> = mk();
    let c: re::math::color::Color3f<re::math::color::Hsl> = mk();
    let d = re::math::space::Affine::sub(&a, &b);
    let _ = re::math::space::Affine::add(&c, &d);
}

pub fn p156() {
    let a: re::math::color::Color3f<re::math::color::Hsl> = mk();
    let b: re::math::color::Color3<re::math::color::Hsl> = mk();
    let c: re::math::color::Color3f<re::math::color::Rgb> = mk();
    let d = re::math::space::Affine::sub(&a, &b);
    let _ = re::math::space::Affine::add(&c, &d);
}

pub fn p157() {
    let a: re::math::color::Color3f<re::math::color::Hsl> = mk();
    let b: re::math::color::Color3<re::math::color::Hsl> = mk();
    let c: re::math::color::Color3<re::math::color::Hsl> = mk();
    let d = re::math::space::Affine::sub(&a, &b);
    let _ = re::math::space::Affine::add(&c, &d);
}

pub fn p158() {
    let a: re::math::color::Color3f<re::math::color::Hsl> = mk();
    let b: re::math::color::Color3<re::math::color::Hsl> = mk();
    let c: re::math::color::Color3<re::math::color::Rgb> = mk();
    let d = re::math::space::Affine::sub(&a, &b);
    let _ = re::math::space::Affine::add(&c, &d);
}

pub fn p159() {
    let a: re::math::color::Color3f<re::math::color::Hsl> = mk();
    let b: re::math::color::Color3<re::math::color::Rgb> = mk();
    let c: re::math::color::Color3f<re::math::color::Hsl> = mk();
    let d = re::math::space::Affine::sub(&a, &b);
    let _ = re::math::space::Affine::add(&c, &d);
}

pub fn p160() {
    let a: re::math::color::Color3f<re::math::color::Hsl> = mk();
    let b: re::math::color::Color3<re::math::color::Rgb> = mk();
    let c: re::math::color::Color3f<re::math::color::Rgb> = mk();
    let d = re::math::space::Affine::sub(&a, &b);
    let _ = re::math::space::Affine::add(&c, &d);
}

pub fn p161() {
    let a: re::math::color::Color3f<re::math::color::Hsl> = mk();
    let b: re::math::color::Color3<re::math::color::Rgb> = mk();
    let c: re::math::color::Color3<re::math::color::Hsl> = mk();
    let d = re::math::space::Affine::sub(&a, &b);
    let _ = re::math::space::Affine::add(&c, &d);
}

pub fn p162() {
    let a: re::math::color::Color3f<re::math::color::Hsl> = mk();
    let b: re::math::color::Color3<re::math::color::Rgb> = mk();
    let c: re::math::color::Color3<re::math::color::Rgb> = mk();
    let d = re::math::space::Affine::sub(&a, &b);
    let _ = re::math::space::Affine::add(&c, &d);
}

pub fn p164() {
    use re::geom::{Tri, Vertex};
    let vs = |_: Vertex<re::math::point::Point3<re::render::Model>, ()>, _: ()| -> Vertex<re::math::vec::ProjVec4, f32> { mk() };
    let fs = |_: re::render::raster::Frag<f32>| -> re::math::color::Color3f<re::math::color::Hsl> { mk() };
    let sh = re::render::shader::Shader::new(vs, fs);
    let mut target: re::util::buf::Buf2<u32> = mk();
    let tris: Vec<Tri<usize>> = mk();
    let verts: Vec<Vertex<re::math::point::Point3<re::render::Model>, ()>> = mk();
    re::render::render(&tris, &verts, &sh, (), mk(), &mut target, &mk::<re::render::Context>());
}

pub fn p165() {
    let a: re::math::color::Color3f<re::math::color::Hsl> = mk();
    let _ = a.to_color3();
}

pub fn p166() {
    let a: re::math::color::Color3f<re::math::color::Hsl> = mk();
    let _ = a.to_hsl();
}

pub fn p167() {
    let a: re::math::color::Color3f<re::math::color::Hsl> = mk();
    let _ = a.to_linear();
}

pub fn p168() {
    let a: re::math::color::Color3f<re::math::color::Hsl> = mk();
    let _ = a.to_rgba();
}

pub fn p169() {
    let a: re::math::color::Color3f<re::math::color::Hsl> = mk();
    let _ = a.to_srgb();
}

pub fn p170() {
    let a: re::math::color::Color3f<re::math::color::LinRgb> = mk();
    let b: re::math::color::Color3f<re::math::color::Hsl> = mk();
    let _ = re::math::space::Affine::add(&a, &b);
}

pub fn p171() {
    let a: re::math::color::Color3f<re::math::color::LinRgb> = mk();
    let b: re::math::color::Color3f<re::math::color::Hsl> = mk();
    let _ = re::math::space::Affine::sub(&a, &b);
}

pub fn p172() {
    let a: re::math::color::Color3f<re::math::color::LinRgb> = mk();
    let b: re::math::color::Color3f<re::math::color::Hsl> = mk();
    let _ = re::math::Lerp::lerp(&a, &b, 0.5);
}

pub fn p176() {
    let a: re::math::color::Color3f<re::math::color::LinRgb> = mk();
    let b: re::math::color::Color3f<re::math::color::Rgb> = mk();
    let _ = re::math::space::Affine::add(&a, &b);
}

pub fn p177() {
    let a: re::math::color::Color3f<re::math::color::LinRgb> = mk();
    let b: re::math::color::Color3f<re::math::color::Rgb> = mk();
    let _ = re::math::space::Affine::sub(&a, &b);
}

pub fn p178() {
    let a: re::math::color::Color3f<re::math::color::LinRgb> = mk();
    let b: re::math::color::Color3f<re::math::color::Rgb> = mk();
    let _ = re::math::Lerp::lerp(&a, &b, 0.5);
}

pub fn p180() {
    use re::geom::{Tri, Vertex};
    let vs = |_: Vertex<re::math::point::Point3<re::render::Model>, ()>, _: ()| -> Vertex<re::math::vec::ProjVec4, f32> { mk() };
    let fs = |_: re::render::raster::Frag<f32>| -> re::math::color::Color3f<re::math::color::LinRgb> { mk() };
    let sh = re::render::shader::Shader::new(vs, fs);
    let mut target: re::util::buf::Buf2<u32> = mk();
    let tris: Vec<Tri<usize>> = mk();
    let verts: Vec<Vertex<re::math::point::Point3<re::render::Model>, ()>> = mk();
    re::render::render(&tris, &verts, &sh, (), mk(), &mut target, &mk::<re::render::Context>());
}

pub fn p181() {
    let a: re::math::color::Color3f<re::math::color::LinRgb> = mk();
    let _ = a.to_color3();
}

pub fn p182() {
    let a: re::math::color::Color3f<re::math::color::LinRgb> = mk();
    let _ = a.to_hsl();
}

pub fn p183() {
    let a: re::math::color::Color3f<re::math::color::LinRgb> = mk();
    let _ = a.to_linear();
}

pub fn p184() {
    let a: re::math::color::Color3f<re::math::color::LinRgb> = mk();
    let _ = a.to_rgb();
}

pub fn p185() {
    let a: re::math::color::Color3f<re::math::color::LinRgb> = mk();
    let _ = a.to_rgba();
}

pub fn p186() {
    let a: re::math::color::Color3f<re::math::color::Rgb> = mk();
    let b: re::math::color::Color3f<re::math::color::Hsl> = mk();
    let c: re::math::color::Color3f<re::math::color::Hsl> = mk();
    let d = re::math::space::Affine::sub(&a, &b);
    let _ = re::math::space::Affine::add(&c, &d);
}

pub fn p187() {
    let a: re::math::color::Color3f<re::math::color::Rgb> = mk();
    let b: re::math::color::Color3f<re::math::color::Hsl> = mk();
    let c: re::math::color::Color3f<re::math::color::Rgb> = mk();
    let d = re::math::space::Affine::sub(&a, &b);
    let _ = re::math::space::Affine::add(&c, &d);
}

pub fn p188() {
    let a: re::math::color::Color3f<re::math::color::Rgb> = mk();
    let b: re::math::color::Color3f<re::math::color::Hsl> = mk();
    let c: re::math::color::Color3<re::math::color::Hsl> = mk();
    let d = re::math::space::Affine::sub(&a, &b);
    let _ = re::math::space::Affine::add(&c, &d);
}

pub fn p189() {
    let a: re::math::color::Color3f<re::math::color::Rgb> = mk();
    let b: re::math::color::Color3f<re::math::color::Hsl> = mk();
    let c: re::math::color::Color3<re::math::color::Rgb> = mk();
    let d = re::math::space::Affine::sub(&a, &b);
    let _ = re::math::space::Affine::add(&c, &d);
}

pub fn p190() {
    let a: re::math::color::Color3f<re::math::color::Rgb> = mk();
    let b: re::math::color::Color3f<re::math::color::Hsl> = mk();
    let _ = re::math::space::Affine::add(&a, &b);
}

pub fn p191() {
    let a: re::math::color::Color3f<re::math::color::Rgb> = mk();
    let b: re::math::color::Color3f<re::math::color::Hsl> = mk();
    let _ = re::math::space::Affine::sub(&a, &b);
}

pub fn p192() {
    let a: re::math::color::Color3f<re::math::color::Rgb> = mk();
    let b: re::math::color::Color3f<re::math::color::Hsl> = mk();
    let _ = re::math::Lerp::lerp(&a, &b, 0.5);
}

pub fn p193() {
    let a: re::math::color::Color3f<re::math::color::Rgb> = mk();
    let b: re::math::color::Color3f<re::math::color::LinRgb> = mk();
    let _ = re::math::space::Affine::add(&a, &b);
}

pub fn p194() {
    let a: re::math::color::Color3f<re::math::color::Rgb> = mk();
    let b: re::math::color::Color3f<re::math::color::LinRgb> = mk();
    let _ = re::math::space::Affine::sub(&a, &b);
}

pub fn p195() {
    let a: re::math::color::Color3f<re::math::color::Rgb> = mk();
    let b: re::math::color::Color3f<re::math::color::LinRgb> = mk();
    let _ = re::math::Lerp::lerp(&a, &b, 0.5);
}

pub fn p196() {
    let a: re::math::color::Color3f<re::math::color::Rgb> = mk();
    let b: re::math::color::Color3f<re::math::color::Rgb> = mk();
    let c: re::math::color::Color3f<re::math::color::Hsl> = mk();
    let d = re::math::space::Affine::sub(&a, &b);
    let _ = re::math::space::Affine::add(&c, &d);
}

pub fn p198() {
    let a: re::math::color::Color3f<re::math::color::Rgb> = mk();
    let b: re::math::color::Color3f<re::math::color::Rgb> = mk();
    let c: re::math::color::Color3<re::math::color::Hsl> = mk();
    let d = re::math::space::Affine::sub(&a, &b);
    let _ = re::math::space::Affine::add(&c, &d);
}

pub fn p199() {
    let a: re::math::color::Color3f<re::math::color::Rgb> = mk();
    let b: re::math::color::Color3f<re::math::color::Rgb> = mk();
    let c: re::math::color::Color3<re::math::color::Rgb> = mk();
    let d = re::math::space::Affine::sub(&a, &b);
    let _ = re::math::space::Affine::add(&c, &d);
}

pub fn p203() {
    let a: re::math::color::Color3f<re::math::color::Rgb> = mk();
    let b: re::math::color::Color3<re::math::color::Hsl> = mk();
    let c: re::math::color::Color3f<re::math::color::Hsl> = mk();
    let d = re::math::space::Affine::sub(&a, &b);
    let _ = re::math::space::Affine::add(&c, &d);
}

pub fn p204() {
    let a: re::math::color::Color3f<re::math::color::Rgb> = mk();
    let b: re::math::color::Color3<re::math::color::Hsl> = mk();
    let c: re::math::color::Color3f<re::math::color::Rgb> = mk();
    let d = re::math::space::Affine::sub(&a, &b);
    let _ = re::math::space::Affine::add(&c, &d);
}

pub fn p205() {
    let a: re::math::color::Color3f<re::math::color::Rgb> = mk();
    let b: re::math::color::Color3<re::math::color::Hsl> = mk();
    let c: re::math::color::Color3<re::math::color::Hsl> = mk();
    let d = re::math::space::Affine::sub(&a, &b);
    let _ = re::math::space::Affine::add(&c, &d);
}

pub fn p206() {
    let a: re::math::color::Color3f<re::math::color::Rgb> = mk();
    let b: re::math::color::Color3<re::math::color::Hsl> = mk();
    let c: re::math::color::Color3<re::math::color::Rgb> = mk();
    let d = re::math::space::Affine::sub(&a, &b);
    let _ = re::math::space::Affine::add(&c, &d);
}

pub fn p207() {
    let a: re::math::color::Color3f<re::math::color::Rgb> = mk();
    let b: re::math::color::Color3<re::math::color::Rgb> = mk();
    let c: re::math::color::Color3f<re::math::color::Hsl> = mk();
    let d = re::math::space::Affine::sub(&a, &b);
    let _ = re::math::space::Affine::add(&c, &d);
}

pub fn p208() {
    let a: re::math::color::Color3f<re::math::color::Rgb> = mk();
    let b: re::math::color::Color3<re::math::color::Rgb> = mk();
    let c: re::math::color::Color3f<re::math::color::Rgb> = mk();
    let d = re::math::space::Affine::sub(&a, &b);
    let _ = re::math::space::Affine::add(&c, &d);
}

pub fn p209() {
    let a: re::math::color::Color3f<re::math::color::Rgb> = mk();
    let b: re::math::color::Color3<re::math::color::Rgb> = mk();
    let c: re::math::color::Color3<re::math::color::Hsl> = mk();
    let d = re::math::space::Affine::sub(&a, &b);
    let _ = re::math::space::Affine::add(&c, &d);
}

pub fn p210() {
    let a: re::math::color::Color3f<re::math::color::Rgb> = mk();
    let b: re::math::color::Color3<re::math::color::Rgb> = mk();
    let c: re::math::color::Color3<re::math::color::Rgb> = mk();
    let d = re::math::space::Affine::sub(&a, &b);
    let _ = re::math::space::Affine::add(&c, &d);
}

pub fn p215() {
    let a: re::math::color::Color3f<re::math::color::Rgb> = mk();
    let _ = a.to_rgb();
}

pub fn p216() {
    let a: re::math::color::Color3f<re::math::color::Rgb> = mk();
    let _ = a.to_srgb();
}

pub fn p217() {
    let a: re::math::color::Color3<re::math::color::Hsl> = mk();
    let b: re::math::color::Color3f<re::math::color::Hsl> = mk();
    let c: re::math::color::Color3f<re::math::color::Hsl> = mk();
    let d = re::math::space::Affine::sub(&a, &b);
    let _ = re::math::space::Affine::add(&c, &d);
}

pub fn p218() {
    let a: re::math::color::Color3<re::math::color::Hsl> = mk();
    let b: re::math::color::Color3f<re::math::color::Hsl> = mk();
    let c: re::math::color::Color3f<re::math::color::Rgb> = mk();
    let d = re::math::space::Affine::sub(&a, &b);
    let _ = re::math::space::Affine::add(&c, &d);
}

pub fn p219() {
    let a: re::math::color::Color3<re::math::color::Hsl> = mk();
    let b: re::math::color::Color3f<re::math::color::Hsl> = mk();
    let c: re::math::color::Color3<re::math::color::Hsl> = mk();
    let d = re::math::space::Affine::sub(&a, &b);
    let _ = re::math::space::Affine::add(&c, &d);
}

pub fn p220() {
    let a: re::math::color::Color3<re::math::color::Hsl> = mk();
    let b: re::math::color::Color3f<re::math::color::Hsl> = mk();
    let c: re::math::color::Color3<re::math::color::Rgb> = mk();
    let d = re::math::space::Affine::sub(&a, &b);
    let _ = re::math::space::Affine::add(&c, &d);
}

pub fn p221() {
    let a: re::math::color::Color3<re::math::color::Hsl> = mk();
    let b: re::math::color::Color3f<re::math::color::Rgb> = mk();
    let c: re::math::color::Color3f<re::math::color::Hsl> = mk();
    let d = re::math::space::Affine::sub(&a, &b);
    let _ = re::math::space::Affine::add(&c, &d);
}

pub fn p222() {
    let a: re::math::color::Color3<re::math::color::Hsl> = mk();
    let b: re::math::color::Color3f<re::math::color::Rgb> = mk();
    let c: re::math::color::Color3f<re::math::color::Rgb> = mk();
    let d = re::math::space::Affine::sub(&a, &b);
    let _ = re::math::space::Affine::add(&c, &d);
}

pub fn p223() {
    let a: re::math::color::Color3<re::math::color::Hsl> = mk();
    let b: re::math::color::Color3f<re::math::color::Rgb> = mk();
    let c: re::math::color::Color3<re::math::color::Hsl> = mk();
    let d = re::math::space::Affine::sub(&a, &b);
    let _ = re::math::space::Affine::add(&c, &d);
}

pub fn p224() {
    let a: re::math::color::Color3<re::math::color::Hsl> = mk();
    let b: re::math::color::Color3f<re::math::color::Rgb> = mk();
    let c: re::math::color::Color3<re::math::color::Rgb> = mk();
    let d = re::math::space::Affine::sub(&a, &b);
    let _ = re::math::space::Affine::add(&c, &d);
}

pub fn p225() {
    let a: re::math::color::Color3<re::math::color::Hsl> = mk();
    let b: re::math::color::Color3<re::math::color::Hsl> = mk();
    let c: re::math::color::Color3f<re::math::color::Hsl> = mk();
    let d = re::math::space::Affine::sub(&a, &b);
    let _ = re::math::space::Affine::add(&c, &d);
}

pub fn p226() {
    let a: re::math::color::Color3<re::math::color::Hsl> = mk();
    let b: re::math::color::Color3<re::math::color::Hsl> = mk();
    let c: re::math::color::Color3f<re::math::color::Rgb> = mk();
    let d = re::math::space::Affine::sub(&a, &b);
    let _ = re::math::space::Affine::add(&c, &d);
}

pub fn p228() {
    let a: re::math::color::Color3<re::math::color::Hsl> = mk();
    let b: re::math::color::Color3<re::math::color::Hsl> = mk();
    let c: re::math::color::Color3<re::math::color::Rgb> = mk();
    let d = re::math::space::Affine::sub(&a, &b);
    let _ = re::math::space::Affine::add(&c, &d);
}

pub fn p229() {
    let a: re::math::color::Color3<re::math::color::Hsl> = mk();
    let b: re::math::color::Color3<re::math::color::Rgb> = mk();
    let c: re::math::color::Color3f<re::math::color::Hsl> = mk();
    let d = re::math::space::Affine::sub(&a, &b);
    let _ = re::math::space::Affine::add(&c, &d);
}

pub fn p230() {
    let a: re::math::color::Color3<re::math::color::Hsl> = mk();
    let b: re::math::color::Color3<re::math::color::Rgb> = mk();
    let c: re::math::color::Color3f<re::math::color::Rgb> = mk();
    let d = re::math::space::Affine::sub(&a, &b);
    let _ = re::math::space::Affine::add(&c, &d);
}

pub fn p231() {
    let a: re::math::color::Color3<re::math::color::Hsl> = mk();
    let b: re::math::color::Color3<re::math::color::Rgb> = mk();
    let c: re::math::color::Color3<re::math::color::Hsl> = mk();
    let d = re::math::space::Affine::sub(&a, &b);
    let _ = re::math::space::Affine::add(&c, &d);
}

pub fn p232() {
    let a: re::math::color::Color3<re::math::color::Hsl> = mk();
    let b: re::math::color::Color3<re::math::color::Rgb> = mk();
    let c: re::math::color::Color3<re::math::color::Rgb> = mk();
    let d = re::math::space::Affine::sub(&a, &b);
    let _ = re::math::space::Affine::add(&c, &d);
}

pub fn p234() {
    use re::geom::{Tri, Vertex};
    let vs = |_: Vertex<re::math::point::Point3<re::render::Model>, ()>, _: ()| -> Vertex<re::math::vec::ProjVec4, f32> { mk() };
    let fs = |_: re::render::raster::Frag<f32>| -> re::math::color::Color3<re::math::color::Hsl> { mk() };
    let sh = re::render::shader::Shader::new(vs, fs);
    let mut target: re::util::buf::Buf2<u32> = mk();
    let tris: Vec<Tri<usize>> = mk();
    let verts: Vec<Vertex<re::math::point::Point3<re::render::Model>, ()>> = mk();
    re::render::render(&tris, &verts, &sh, (), mk(), &mut target, &mk::<re::render::Context>());
}

pub fn p235() {
    let a: re::math::color::Color3<re::math::color::Hsl> = mk();
    let _ = a.to_color3();
}

pub fn p236() {
    let a: re::math::color::Color3<re::math::color::Hsl> = mk();
    let _ = a.to_hsl();
}

pub fn p237() {
    let a: re::math::color::Color3<re::math::color::Hsl> = mk();
    let _ = a.to_linear();
}

pub fn p238() {
    let a: re::math::color::Color3<re::math::color::Hsl> = mk();
    let _ = a.to_rgba();
}

pub fn p239() {
    let a: re::math::color::Color3<re::math::color::Hsl> = mk();
    let _ = a.to_srgb();
}

pub fn p240() {
    let a: re::math::color::Color3<re::math::color::Rgb> = mk();
    let b: re::math::color::Color3f<re::math::color::Hsl> = mk();
    let c: re::math::color::Color3f<re::math::color::Hsl> = mk();
    let d = re::math::space::Affine::sub(&a, &b);
    let _ = re::math::space::Affine::add(&c, &d);
}

pub fn p241() {
    let a: re::math::color::Color3<re::math::color::Rgb> = mk();
    let b: re::math::color::Color3f<re::math::color::Hsl> = mk();
    let c: re::math::color::Color3f<re::math::color::Rgb> = mk();
    let d = re::math::space::Affine::sub(&a, &b);
    let _ = re::math::space::Affine::add(&c, &d);
}

pub fn p242() {
    let a: re::math::color::Color3<re::math::color::Rgb> = mk();
    let b: re::math::color::Color3f<re::math::color::Hsl> = mk();
    let c: re::math::color::Color3<re::math::color::Hsl> = mk();
    let d = re::math::space::Affine::sub(&a, &b);
    let _ = re::math::space::Affine::add(&c, &d);
}

pub fn p243() {
    let a: re::math::color::Color3<re::math::color::Rgb> = mk();
    let b: re::math::color::Color3f<re::math::color::Hsl> = mk();
    let c: re::math::color::Color3<re::math::color::Rgb> = mk();
    let d = re::math::space::Affine::sub(&a, &b);
    let _ = re::math::space::Affine::add(&c, &d);
}

pub fn p244() {
    let a: re::math::color::Color3<re::math::color::Rgb> = mk();
    let b: re::math::color::Color3f<re::math::color::Rgb> = mk();
    let c: re::math::color::Color3f<re::math::color::Hsl> = mk();
    let d = re::math::space::Affine::sub(&a, &b);
    let _ = re::math::space::Affine::add(&c, &d);
}

pub fn p245() {
    let a: re::math::color::Color3<re::math::color::Rgb> = mk();
    let b: re::math::color::Color3f<re::math::color::Rgb> = mk();
    let c: re::math::color::Color3f<re::math::color::Rgb> = mk();
    let d = re::math::space::Affine::sub(&a, &b);
    let _ = re::math::space::Affine::add(&c, &d);
}

pub fn p246() {
    let a: re::math::color::Color3<re::math::color::Rgb> = mk();
    let b: re::math::color::Color3f<re::math::color::Rgb> = mk();
    let c: re::math::color::Color3<re::math::color::Hsl> = mk();
    let d = re::math::space::Affine::sub(&a, &b);
    let _ = re::math::space::Affine::add(&c, &d);
}

pub fn p247() {
    let a: re::math::color::Color3<re::math::color::Rgb> = mk();
    let b: re::math::color::Color3f<re::math::color::Rgb> = mk();
    let c: re::math::color::Color3<re::math::color::Rgb> = mk();
    let d = re::math::space::Affine::sub(&a, &b);
    let _ = re::math::space::Affine::add(&c, &d);
}

pub fn p248() {
    let a: re::math::color::Color3<re::math::color::Rgb> = mk();
    let b: re::math::color::Color3<re::math::color::Hsl> = mk();
    let c: re::math::color::Color3f<re::math::color::Hsl> = mk();
    let d = re::math::space::Affine::sub(&a, &b);
    let _ = re::math::space::Affine::add(&c, &d);
}

pub fn p249() {
    let a: re::math::color::Color3<re::math::color::Rgb> = mk();
    let b: re::math::color::Color3<re::math::color::Hsl> = mk();
    let c: re::math::color::Color3f<re::math::color::Rgb> = mk();
    let d = re::math::space::Affine::sub(&a, &b);
    let _ = re::math::space::Affine::add(&c, &d);
}

pub fn p250() {
    let a: re::math::color::Color3<re::math::color::Rgb> = mk();
    let b: re::math::color::Color3<re::math::color::Hsl> = mk();
    let c: re::math::color::Color3<re::math::color::Hsl> = mk();
    let d = re::math::space::Affine::sub(&a, &b);
    let _ = re::math::space::Affine::add(&c, &d);
}

pub fn p251() {
    let a: re::math::color::Color3<re::math::color::Rgb> = mk();
    let b: re::math::color::Color3<re::math::color::Hsl> = mk();
    let c: re::math::color::Color3<re::math::color::Rgb> = mk();
    let d = re::math::space::Affine::sub(&a, &b);
    let _ = re::math::space::Affine::add(&c, &d);
}

pub fn p252() {
    let a: re::math::color::Color3<re::math::color::Rgb> = mk();
    let b: re::math::color::Color3<re::math::color::Rgb> = mk();
    let c: re::math::color::Color3f<re::math::color::Hsl> = mk();
    let d = re::math::space::Affine::sub(&a, &b);
    let _ = re::math::space::Affine::add(&c, &d);
}

pub fn p253() {
    let a: re::math::color::Color3<re::math::color::Rgb> = mk();
    let b: re::math::color::Color3<re::math::color::Rgb> = mk();
    let c: re::math::color::Color3f<re::math::color::Rgb> = mk();
    let d = re::math::space::Affine::sub(&a, &b);
    let _ = re::math::space::Affine::add(&c, &d);
}

pub fn p254() {
    let a: re::math::color::Color3<re::math::color::Rgb> = mk();
    let b: re::math::color::Color3<re::math::color::Rgb> = mk();
    let c: re::math::color::Color3<re::math::color::Hsl> = mk();
    let d = re::math::space::Affine::sub(&a, &b);
    let _ = re::math::space::Affine::add(&c, &d);
}

pub fn p258() {
    let a: re::math::color::Color3<re::math::color::Rgb> = mk();
    let _ = a.to_color3();
}

pub fn p259() {
    let a: re::math::color::Color3<re::math::color::Rgb> = mk();
    let _ = a.to_linear();
}

pub fn p260() {
    let a: re::math::color::Color3<re::math::color::Rgb> = mk();
    let _ = a.to_rgb();
}

pub fn p261() {
    let a: re::math::color::Color3<re::math::color::Rgb> = mk();
    let _ = a.to_srgb();
}

pub fn p262() {
    use re::geom::{Tri, Vertex};
    let vs = |_: Vertex<re::math::point::Point3<re::render::Model>, ()>, _: ()| -> Vertex<re::math::vec::ProjVec4, f32> { mk() };
    let fs = |_: re::render::raster::Frag<f32>| -> re::math::color::Color<[f32; 4], re::math::color::Hsla> { mk() };
    let sh = re::render::shader::Shader::new(vs, fs);
    let mut target: re::util::buf::Buf2<u32> = mk();
    let tris: Vec<Tri<usize>> = mk();
    let verts: Vec<Vertex<re::math::point::Point3<re::render::Model>, ()>> = mk();
    re::render::render(&tris, &verts, &sh, (), mk(), &mut target, &mk::<re::render::Context>());
}

pub fn p263() {
    use re::geom::{Tri, Vertex};
    let vs = |_: Vertex<re::math::point::Point3<re::render::Model>, ()>, _: ()| -> Vertex<re::math::vec::ProjVec4, f32> { mk() };
    let fs = |_: re::render::raster::Frag<f32>| -> re::math::color::Color<[u8; 4], re::math::color::Hsla> { mk() };
    let sh = re::render::shader::Shader::new(vs, fs);
    let mut target: re::util::buf::Buf2<u32> = mk();
    let tris: Vec<Tri<usize>> = mk();
    let verts: Vec<Vertex<re::math::point::Point3<re::render::Model>, ()>> = mk();
    re::render::render(&tris, &verts, &sh, (), mk(), &mut target, &mk::<re::render::Context>());
}

pub fn p265() {
    let a: f32 = mk();
    let b: re::math::angle::Angle = mk();
    let _ = a + b;
}

pub fn p266() {
    let a: f32 = mk();
    let b: re::math::angle::Angle = mk();
    let _ = a % b;
}

pub fn p267() {
    let a: f32 = mk();
    let b: re::math::angle::Angle = mk();
    let _ = a - b;
}

pub fn p271() {
    let a: f32 = mk();
    let _ = re::math::angle::polar(1.0, a);
}

pub fn p272() {
    let a: f32 = mk();
    let _ = re::math::mat::rotate_x(a);
}

pub fn p273() {
    let a: f32 = mk();
    let _ = re::math::angle::Angle::sin(a);
}

pub fn p275() {
    let a: re::math::mat::Mat3x3<re::math::mat::RealToReal<2, re::render::Model, re::render::Model>> = mk();
    let b: re::math::point::Point2<re::render::Model> = mk();
    let _r: re::math::point::Point2<re::render::World> = a.apply_pt(&b);
}

pub fn p276() {
    let a: re::math::mat::Mat3x3<re::math::mat::RealToReal<2, re::render::Model, re::render::Model>> = mk();
    let b: re::math::point::Point2<re::render::World> = mk();
    let _r: re::math::point::Point2<re::render::Model> = a.apply_pt(&b);
}

pub fn p277() {
    let a: re::math::mat::Mat3x3<re::math::mat::RealToReal<2, re::render::Model, re::render::Model>> = mk();
    let b: re::math::point::Point2<re::render::World> = mk();
    let _r: re::math::point::Point2<re::render::World> = a.apply_pt(&b);
}

pub fn p279() {
    let a: re::math::mat::Mat3x3<re::math::mat::RealToReal<2, re::render::Model, re::render::Model>> = mk();
    let b: re::math::vec::Vec2<re::render::Model> = mk();
    let _r: re::math::vec::Vec2<re::render::World> = a.apply(&b);
}

pub fn p281() {
    let a: re::math::mat::Mat3x3<re::math::mat::RealToReal<2, re::render::Model, re::render::Model>> = mk();
    let b: re::math::vec::Vec2<re::render::World> = mk();
    let _r: re::math::vec::Vec2<re::render::Model> = a.apply(&b);
}

pub fn p282() {
    let a: re::math::mat::Mat3x3<re::math::mat::RealToReal<2, re::render::Model, re::render::Model>> = mk();
    let b: re::math::vec::Vec2<re::render::World> = mk();
    let _r: re::math::vec::Vec2<re::render::World> = a.apply(&b);
}

pub fn p283() {
    let a: re::math::mat::Mat3x3<re::math::mat::RealToReal<2, re::render::Model, re::render::Model>> = mk();
    let b: re::math::vec::Vec2<re::render::World> = mk();
    let _ = a.apply(&b);
}

pub fn p284() {
    let a: re::math::mat::Mat3x3<re::math::mat::RealToReal<2, re::render::Model, re::render::Model>> = mk();
    let b: re::math::vec::Vec3<re::render::Model> = mk();
    let _ = a.apply(&b);
}

pub fn p285() {
    let a: re::math::mat::Mat3x3<re::math::mat::RealToReal<2, re::render::Model, re::render::Model>> = mk();
    let b: re::math::vec::Vec3<re::render::World> = mk();
    let _ = a.apply(&b);
}

pub fn p286() {
    let a: re::math::mat::Mat3x3<re::math::mat::RealToReal<2, re::render::Model, re::render::World>> = mk();
    let b: re::math::point::Point2<re::render::Model> = mk();
    let _r: re::math::point::Point2<re::render::Model> = a.apply_pt(&b);
}

pub fn p288() {
    let a: re::math::mat::Mat3x3<re::math::mat::RealToReal<2, re::render::Model, re::render::World>> = mk();
    let b: re::math::point::Point2<re::render::World> = mk();
    let _r: re::math::point::Point2<re::render::Model> = a.apply_pt(&b);
}

pub fn p289() {
    let a: re::math::mat::Mat3x3<re::math::mat::RealToReal<2, re::render::Model, re::render::World>> = mk();
    let b: re::math::point::Point2<re::render::World> = mk();
    let _r: re::math::point::Point2<re::render::World> = a.apply_pt(&b);
}

pub fn p290() {
    let a: re::math::mat::Mat3x3<re::math::mat::RealToReal<2, re::render::Model, re::render::World>> = mk();
    let b: re::math::vec::Vec2<re::render::Model> = mk();
    let _r: re::math::vec::Vec2<re::render::Model> = a.apply(&b);
}

pub fn p293() {
    let a: re::math::mat::Mat3x3<re::math::mat::RealToReal<2, re::render::Model, re::render::World>> = mk();
    let b: re::math::vec::Vec2<re::render::World> = mk();
    let _r: re::math::vec::Vec2<re::render::Model> = a.apply(&b);
}

pub fn p294() {
    let a: re::math::mat::Mat3x3<re::math::mat::RealToReal<2, re::render::Model, re::render::World>> = mk();
    let b: re::math::vec::Vec2<re::render::World> = mk();
    let _r: re::math::vec::Vec2<re::render::World> = a.apply(&b);
}

pub fn p295() {
    let a: re::math::mat::Mat3x3<re::math::mat::RealToReal<2, re::render::Model, re::render::World>> = mk();
    let b: re::math::vec::Vec2<re::render::World> = mk();
    let _ = a.apply(&b);
}

pub fn p296() {
    let a: re::math::mat::Mat3x3<re::math::mat::RealToReal<2, re::render::Model, re::render::World>> = mk();
    let b: re::math::vec::Vec3<re::render::Model> = mk();
    let _ = a.apply(&b);
}

pub fn p297() {
    let a: re::math::mat::Mat3x3<re::math::mat::RealToReal<2, re::render::Model, re::render::World>> = mk();
    let b: re::math::vec::Vec3<re::render::World> = mk();
    let _ = a.apply(&b);
}

pub fn p298() {
    let a: re::math::mat::Mat3x3<re::math::mat::RealToReal<2, re::render::World, re::render::Model>> = mk();
    let b: re::math::point::Point2<re::render::Model> = mk();
    let _r: re::math::point::Point2<re::render::Model> = a.apply_pt(&b);
}

pub fn p299() {
    let a: re::math::mat::Mat3x3<re::math::mat::RealToReal<2, re::render::World, re::render::Model>> = mk();
    let b: re::math::point::Point2<re::render::Model> = mk();
    let _r: re::math::point::Point2<re::render::World> = a.apply_pt(&b);
}

pub fn p301() {
    let a: re::math::mat::Mat3x3<re::math::mat::RealToReal<2, re::render::World, re::render::Model>> = mk();
    let b: re::math::point::Point2<re::render::World> = mk();
    let _r: re::math::point::Point2<re::render::World> = a.apply_pt(&b);
}

pub fn p302() {
    let a: re::math::mat::Mat3x3<re::math::mat::RealToReal<2, re::render::World, re::render::Model>> = mk();
    let b: re::math::vec::Vec2<re::render::Model> = mk();
    let _r: re::math::vec::Vec2<re::render::Model> = a.apply(&b);
}

pub fn p303() {
    let a: re::math::mat::Mat3x3<re::math::mat::RealToReal<2, re::render::World, re::render::Model>> = mk();
    let b: re::math::vec::Vec2<re::render::Model> = mk();
    let _r: re::math::vec::Vec2<re::render::World> = a.apply(&b);
}

pub fn p304() {
    let a: re::math::mat::Mat3x3<re::math::mat::RealToReal<2, re::render::World, re::render::Model>> = mk();
    let b: re::math::vec::Vec2<re::render::Model> = mk();
    let _ = a.apply(&b);
}

pub fn p306() {
    let a: re::math::mat::Mat3x3<re::math::mat::RealToReal<2, re::render::World, re::render::Model>> = mk();
    let b: re::math::vec::Vec2<re::render::World> = mk();
    let _r: re::math::vec::Vec2<re::render::World> = a.apply(&b);
}

pub fn p308() {
    let a: re::math::mat::Mat3x3<re::math::mat::RealToReal<2, re::render::World, re::render::Model>> = mk();
    let b: re::math::vec::Vec3<re::render::Model> = mk();
    let _ = a.apply(&b);
}

pub fn p309() {
    let a: re::math::mat::Mat3x3<re::math::mat::RealToReal<2, re::render::World, re::render::Model>> = mk();
    let b: re::math::vec::Vec3<re::render::World> = mk();
    let _ = a.apply(&b);
}

pub fn p310() {
    let a: re::math::mat::Mat3x3<re::math::mat::RealToReal<2, re::render::World, re::render::World>> = mk();
    let b: re::math::point::Point2<re::render::Model> = mk();
    let _r: re::math::point::Point2<re::render::Model> = a.apply_pt(&b);
}

pub fn p311() {
    let a: re::math::mat::Mat3x3<re::math::mat::RealToReal<2, re::render::World, re::render::World>> = mk();
    let b: re::math::point::Point2<re::render::Model> = mk();
    let _r: re::math::point::Point2<re::render::World> = a.apply_pt(&b);
}

pub fn p312() {
    let a: re::math::mat::Mat3x3<re::math::mat::RealToReal<2, re::render::World, re::render::World>> = mk();
    let b: re::math::point::Point2<re::render::World> = mk();
    let _r: re::math::point::Point2<re::render::Model> = a.apply_pt(&b);
}

pub fn p314() {
    let a: re::math::mat::Mat3x3<re::math::mat::RealToReal<2, re::render::World, re::render::World>> = mk();
    let b: re::math::vec::Vec2<re::render::Model> = mk();
    let _r: re::math::vec::Vec2<re::render::Model> = a.apply(&b);
}

pub fn p315() {
    let a: re::math::mat::Mat3x3<re::math::mat::RealToReal<2, re::render::World, re::render::World>> = mk();
    let b: re::math::vec::Vec2<re::render::Model> = mk();
    let _r: re::math::vec::Vec2<re::render::World> = a.apply(&b);
}

pub fn p316() {
    let a: re::math::mat::Mat3x3<re::math::mat::RealToReal<2, re::render::World, re::render::World>> = mk();
    let b: re::math::vec::Vec2<re::render::Model> = mk();
    let _ = a.apply(&b);
}

pub fn p317() {
    let a: re::math::mat::Mat3x3<re::math::mat::RealToReal<2, re::render::World, re::render::World>> = mk();
    let b: re::math::vec::Vec2<re::render::World> = mk();
    let _r: re::math::vec::Vec2<re::render::Model> = a.apply(&b);
}

pub fn p320() {
    let a: re::math::mat::Mat3x3<re::math::mat::RealToReal<2, re::render::World, re::render::World>> = mk();
    let b: re::math::vec::Vec3<re::render::Model> = mk();
    let _ = a.apply(&b);
}

pub fn p321() {
    let a: re::math::mat::Mat3x3<re::math::mat::RealToReal<2, re::render::World, re::render::World>> = mk();
    let b: re::math::vec::Vec3<re::render::World> = mk();
    let _ = a.apply(&b);
}

pub fn p325() {
    let a: re::math::mat::Mat4x4<re::math::mat::RealToReal<3, re::render::Model, re::render::Model>> = mk();
    let b: re::math::mat::Mat4x4<re::render::ViewToProj> = mk();
    let _ = a.then(&b);
}

pub fn p326() {
    let a: re::math::mat::Mat4x4<re::math::mat::RealToReal<3, re::render::Model, re::render::Model>> = mk();
    let b: re::math::mat::Mat4x4<re::render::WorldToView> = mk();
    let _ = a.then(&b);
}

pub fn p328() {
    let a: re::math::mat::Mat4x4<re::math::mat::RealToReal<3, re::render::Model, re::render::Model>> = mk();
    let b: re::math::mat::Mat4x4<re::math::mat::RealToReal<3, re::render::Model, re::render::Model>> = mk();
    let _r: re::math::mat::Mat4x4<re::math::mat::RealToReal<3, re::render::Model, re::render::World>> = a.compose(&b);
}

pub fn p329() {
    let a: re::math::mat::Mat4x4<re::math::mat::RealToReal<3, re::render::Model, re::render::Model>> = mk();
    let b: re::math::mat::Mat4x4<re::math::mat::RealToReal<3, re::render::Model, re::render::Model>> = mk();
    let _r: re::math::mat::Mat4x4<re::math::mat::RealToReal<3, re::render::World, re::render::Model>> = a.compose(&b);
}

pub fn p330() {
    let a: re::math::mat::Mat4x4<re::math::mat::RealToReal<3, re::render::Model, re::render::Model>> = mk();
    let b: re::math::mat::Mat4x4<re::math::mat::RealToReal<3, re::render::Model, re::render::Model>> = mk();
    let _r: re::math::mat::Mat4x4<re::math::mat::RealToReal<3, re::render::World, re::render::World>> = a.compose(&b);
}

pub fn p333() {
    let a: re::math::mat::Mat4x4<re::math::mat::RealToReal<3, re::render::Model, re::render::Model>> = mk();
    let b: re::math::mat::Mat4x4<re::math::mat::RealToReal<3, re::render::Model, ()>> = mk();
    let _ = a.compose(&b);
}

pub fn p335() {
    let a: re::math::mat::Mat4x4<re::math::mat::RealToReal<3, re::render::Model, re::render::Model>> = mk();
    let b: re::math::mat::Mat4x4<re::math::mat::RealToReal<3, re::render::Model, re::render::World>> = mk();
    let _r: re::math::mat::Mat4x4<re::math::mat::RealToReal<3, re::render::Model, re::render::Model>> = a.compose(&b);
}

pub fn p336() {
    let a: re::math::mat::Mat4x4<re::math::mat::RealToReal<3, re::render::Model, re::render::Model>> = mk();
    let b: re::math::mat::Mat4x4<re::math::mat::RealToReal<3, re::render::Model, re::render::World>> = mk();
    let _r: re::math::mat::Mat4x4<re::math::mat::RealToReal<3, re::render::Model, re::render::World>> = a.compose(&b);
}

pub fn p337() {
    let a: re::math::mat::Mat4x4<re::math::mat::RealToReal<3, re::render::Model, re::render::Model>> = mk();
    let b: re::math::mat::Mat4x4<re::math::mat::RealToReal<3, re::render::Model, re::render::World>> = mk();
    let _r: re::math::mat::Mat4x4<re::math::mat::RealToReal<3, re::render::World, re::render::Model>> = a.compose(&b);
}

pub fn p338() {
    let a: re::math::mat::Mat4x4<re::math::mat::RealToReal<3, re::render::Model, re::render::Model>> = mk();
    let b: re::math::mat::Mat4x4<re::math::mat::RealToReal<3, re::render::Model, re::render::World>> = mk();
    let _r: re::math::mat::Mat4x4<re::math::mat::RealToReal<3, re::render::World, re::render::World>> = a.compose(&b);
}

pub fn p339() {
    let a: re::math::mat::Mat4x4<re::math::mat::RealToReal<3, re::render::Model, re::render::Model>> = mk();
    let b: re::math::mat::Mat4x4<re::math::mat::RealToReal<3, re::render::Model, re::render::World>> = mk();
    let _ = a.compose(&b);
}

pub fn p341() {
    let a: re::math::mat::Mat4x4<re::math::mat::RealToReal<3, re::render::Model, re::render::Model>> = mk();
    let b: re::math::mat::Mat4x4<re::math::mat::RealToReal<3, (), re::render::Model>> = mk();
    let _ = a.then(&b);
}

pub fn p343() {
    let a: re::math::mat::Mat4x4<re::math::mat::RealToReal<3, re::render::Model, re::render::Model>> = mk();
    let b: re::math::mat::Mat4x4<re::math::mat::RealToReal<3, (), ()>> = mk();
    let _ = a.compose(&b);
}

pub fn p344() {
    let a: re::math::mat::Mat4x4<re::math::mat::RealToReal<3, re::render::Model, re::render::Model>> = mk();
    let b: re::math::mat::Mat4x4<re::math::mat::RealToReal<3, (), ()>> = mk();
    let _ = a.then(&b);
}

pub fn p345() {
    let a: re::math::mat::Mat4x4<re::math::mat::RealToReal<3, re::render::Model, re::render::Model>> = mk();
    let b: re::math::mat::Mat4x4<re::math::mat::RealToReal<3, (), re::render::World>> = mk();
    let _ = a.compose(&b);
}

pub fn p346() {
    let a: re::math::mat::Mat4x4<re::math::mat::RealToReal<3, re::render::Model, re::render::Model>> = mk();
    let b: re::math::mat::Mat4x4<re::math::mat::RealToReal<3, (), re::render::World>> = mk();
    let _ = a.then(&b);
}

pub fn p347() {
    let a: re::math::mat::Mat4x4<re::math::mat::RealToReal<3, re::render::Model, re::render::Model>> = mk();
    let b: re::math::mat::Mat4x4<re::math::mat::RealToReal<3, re::render::World, re::render::Model>> = mk();
    let _r: re::math::mat::Mat4x4<re::math::mat::RealToReal<3, re::render::Model, re::render::Model>> = a.compose(&b);
}

pub fn p348() {
    let a: re::math::mat::Mat4x4<re::math::mat::RealToReal<3, re::render::Model, re::render::Model>> = mk();
    let b: re::math::mat::Mat4x4<re::math::mat::RealToReal<3, re::render::World, re::render::Model>> = mk();
    let _r: re::math::mat::Mat4x4<re::math::mat::RealToReal<3, re::render::Model, re::render::World>> = a.compose(&b);
}

pub fn p350() {
    let a: re::math::mat::Mat4x4<re::math::mat::RealToReal<3, re::render::Model, re::render::Model>> = mk();
    let b: re::math::mat::Mat4x4<re::math::mat::RealToReal<3, re::render::World, re::render::Model>> = mk();
    let _r: re::math::mat::Mat4x4<re::math::mat::RealToReal<3, re::render::World, re::render::World>> = a.compose(&b);
}

pub fn p351() {
    let a: re::math::mat::Mat4x4<re::math::mat::RealToReal<3, re::render::Model, re::render::Model>> = mk();
    let b: re::math::mat::Mat4x4<re::math::mat::RealToReal<3, re::render::World, re::render::Model>> = mk();
    let _ = a.then(&b);
}

pub fn p353() {
    let a: re::math::mat::Mat4x4<re::math::mat::RealToReal<3, re::render::Model, re::render::Model>> = mk();
    let b: re::math::mat::Mat4x4<re::math::mat::RealToReal<3, re::render::World, ()>> = mk();
    let _ = a.compose(&b);
}

pub fn p354() {
    let a: re::math::mat::Mat4x4<re::math::mat::RealToReal<3, re::render::Model, re::render::Model>> = mk();
    let b: re::math::mat::Mat4x4<re::math::mat::RealToReal<3, re::render::World, ()>> = mk();
    let _ = a.then(&b);
}

pub fn p355() {
    let a: re::math::mat::Mat4x4<re::math::mat::RealToReal<3, re::render::Model, re::render::Model>> = mk();
    let b: re::math::mat::Mat4x4<re::math::mat::RealToReal<3, re::render::World, re::render::World>> = mk();
    let _r: re::math::mat::Mat4x4<re::math::mat::RealToReal<3, re::render::Model, re::render::Model>> = a.compose(&b);
}

pub fn p356() {
    let a: re::math::mat::Mat4x4<re::math::mat::RealToReal<3, re::render::Model, re::render::Model>> = mk();
    let b: re::math::mat::Mat4x4<re::math::mat::RealToReal<3, re::render::World, re::render::World>> = mk();
    let _r: re::math::mat::Mat4x4<re::math::mat::RealToReal<3, re::render::Model, re::render::World>> = a.compose(&b);
}

pub fn p357() {
    let a: re::math::mat::Mat4x4<re::math::mat::RealToReal<3, re::render::Model, re::render::Model>> = mk();
    let b: re::math::mat::Mat4x4<re::math::mat::RealToReal<3, re::render::World, re::render::World>> = mk();
    let _r: re::math::mat::Mat4x4<re::math::mat::RealToReal<3, re::render::World, re::render::Model>> = a.compose(&b);
}

pub fn p358() {
    let a: re::math::mat::Mat4x4<re::math::mat::RealToReal<3, re::render::Model, re::render::Model>> = mk();
    let b: re::math::mat::Mat4x4<re::math::mat::RealToReal<3, re::render::World, re::render::World>> = mk();
    let _r: re::math::mat::Mat4x4<re::math::mat::RealToReal<3, re::render::World, re::render::World>> = a.compose(&b);
}

pub fn p359() {
    let a: re::math::mat::Mat4x4<re::math::mat::RealToReal<3, re::render::Model, re::render::Model>> = mk();
    let b: re::math::mat::Mat4x4<re::math::mat::RealToReal<3, re::render::World, re::render::World>> = mk();
    let _ = a.compose(&b);
}

pub fn p360() {
    let a: re::math::mat::Mat4x4<re::math::mat::RealToReal<3, re::render::Model, re::render::Model>> = mk();
    let b: re::math::mat::Mat4x4<re::math::mat::RealToReal<3, re::render::World, re::render::World>> = mk();
    let _ = a.then(&b);
}

pub fn p361() {
    let a: re::math::mat::Mat4x4<re::math::mat::RealToReal<3, re::render::Model, re::render::Model>> = mk();
    let b: re::math::mat::Mat4x4<re::math::mat::RealToProj<re::render::Model>> = mk();
    let _ = a.compose(&b);
}

pub fn p363() {
    let a: re::math::mat::Mat4x4<re::math::mat::RealToReal<3, re::render::Model, re::render::Model>> = mk();
    let b: re::math::mat::Mat4x4<re::math::mat::RealToProj<()>> = mk();
    let _ = a.compose(&b);
}

pub fn p364() {
    let a: re::math::mat::Mat4x4<re::math::mat::RealToReal<3, re::render::Model, re::render::Model>> = mk();
    let b: re::math::mat::Mat4x4<re::math::mat::RealToProj<()>> = mk();
    let _ = a.then(&b);
}

pub fn p365() {
    let a: re::math::mat::Mat4x4<re::math::mat::RealToReal<3, re::render::Model, re::render::Model>> = mk();
    let b: re::math::mat::Mat4x4<re::math::mat::RealToProj<re::render::World>> = mk();
    let _ = a.compose(&b);
}

pub fn p366() {
    let a: re::math::mat::Mat4x4<re::math::mat::RealToReal<3, re::render::Model, re::render::Model>> = mk();
    let b: re::math::mat::Mat4x4<re::math::mat::RealToProj<re::render::World>> = mk();
    let _ = a.then(&b);
}

pub fn p367() {
    let a: re::math::mat::Mat4x4<re::math::mat::RealToReal<3, re::render::Model, re::render::Model>> = mk();
    let b: re::math::point::Point2<re::render::Model> = mk();
    let _ = a.apply_pt(&b);
}

pub fn p368() {
    let a: re::math::mat::Mat4x4<re::math::mat::RealToReal<3, re::render::Model, re::render::Model>> = mk();
    let b: re::math::point::Point2<()> = mk();
    let _ = a.apply_pt(&b);
}

pub fn p369() {
    let a: re::math::mat::Mat4x4<re::math::mat::RealToReal<3, re::render::Model, re::render::Model>> = mk();
    let b: re::math::point::Point2<re::render::World> = mk();
    let _ = a.apply_pt(&b);
}

pub fn p371() {
    let a: re::math::mat::Mat4x4<re::math::mat::RealToReal<3, re::render::Model, re::render::Model>> = mk();
    let b: re::math::point::Point3<re::render::Model> = mk();
    let _r: re::math::point::Point3<()> = a.apply_pt(&b);
}

pub fn p372() {
    let a: re::math::mat::Mat4x4<re::math::mat::RealToReal<3, re::render::Model, re::render::Model>> = mk();
    let b: re::math::point::Point3<re::render::Model> = mk();
    let _r: re::math::point::Point3<re::render::World> = a.apply_pt(&b);
}

pub fn p373() {
    let a: re::math::mat::Mat4x4<re::math::mat::RealToReal<3, re::render::Model, re::render::Model>> = mk();
    let b: re::math::point::Point3<re::render::Model> = mk();
    let _ = a.apply(&b);
}

pub fn p375() {
    let a: re::math::mat::Mat4x4<re::math::mat::RealToReal<3, re::render::Model, re::render::Model>> = mk();
    let b: re::math::point::Point3<()> = mk();
    let _r: re::math::point::Point3<re::render::Model> = a.apply_pt(&b);
}

pub fn p376() {
    let a: re::math::mat::Mat4x4<re::math::mat::RealToReal<3, re::render::Model, re::render::Model>> = mk();
    let b: re::math::point::Point3<()> = mk();
    let _r: re::math::point::Point3<()> = a.apply_pt(&b);
}

pub fn p377() {
    let a: re::math::mat::Mat4x4<re::math::mat::RealToReal<3, re::render::Model, re::render::Model>> = mk();
    let b: re::math::point::Point3<()> = mk();
    let _r: re::math::point::Point3<re::render::World> = a.apply_pt(&b);
}

pub fn p378() {
    let a: re::math::mat::Mat4x4<re::math::mat::RealToReal<3, re::render::Model, re::render::Model>> = mk();
    let b: re::math::point::Point3<()> = mk();
    let _ = a.apply_pt(&b);
}

pub fn p379() {
    let a: re::math::mat::Mat4x4<re::math::mat::RealToReal<3, re::render::Model, re::render::Model>> = mk();
    let b: re::math::point::Point3<re::render::View> = mk();
    let _ = a.apply(&b);
}

pub fn p380() {
    let a: re::math::mat::Mat4x4<re::math::mat::RealToReal<3, re::render::Model, re::render::Model>> = mk();
    let b: re::math::point::Point3<re::render::View> = mk();
    let _ = a.apply_pt(&b);
}

pub fn p381() {
    let a: re::math::mat::Mat4x4<re::math::mat::RealToReal<3, re::render::Model, re::render::Model>> = mk();
    let b: re::math::point::Point3<re::render::World> = mk();
    let _r: re::math::point::Point3<re::render::Model> = a.apply_pt(&b);
}

pub fn p382() {
    let a: re::math::mat::Mat4x4<re::math::mat::RealToReal<3, re::render::Model, re::render::Model>> = mk();
    let b: re::math::point::Point3<re::render::World> = mk();
    let _r: re::math::point::Point3<()> = a.apply_pt(&b);
}

pub fn p383() {
    let a: re::math::mat::Mat4x4<re::math::mat::RealToReal<3, re::render::Model, re::render::Model>> = mk();
    let b: re::math::point::Point3<re::render::World> = mk();
    let _r: re::math::point::Point3<re::render::World> = a.apply_pt(&b);
}

pub fn p384() {
    let a: re::math::mat::Mat4x4<re::math::mat::RealToReal<3, re::render::Model, re::render::Model>> = mk();
    let b: re::math::point::Point3<re::render::World> = mk();
    let _ = a.apply(&b);
}

pub fn p385() {
    let a: re::math::mat::Mat4x4<re::math::mat::RealToReal<3, re::render::Model, re::render::Model>> = mk();
    let b: re::math::point::Point3<re::render::World> = mk();
    let _ = a.apply_pt(&b);
}

pub fn p386() {
    let a: re::math::mat::Mat4x4<re::math::mat::RealToReal<3, re::render::Model, re::render::Model>> = mk();
    let b: re::math::vec::Vec2<re::render::Model> = mk();
    let _ = a.apply(&b);
}

pub fn p387() {
    let a: re::math::mat::Mat4x4<re::math::mat::RealToReal<3, re::render::Model, re::render::Model>> = mk();
    let b: re::math::vec::Vec2<()> = mk();
    let _ = a.apply(&b);
}

pub fn p388() {
    let a: re::math::mat::Mat4x4<re::math::mat::RealToReal<3, re::render::Model, re::render::Model>> = mk();
    let b: re::math::vec::Vec2<re::render::World> = mk();
    let _ = a.apply(&b);
}

pub fn p390() {
    let a: re::math::mat::Mat4x4<re::math::mat::RealToReal<3, re::render::Model, re::render::Model>> = mk();
    let b: re::math::vec::Vec3<re::render::Model> = mk();
    let _r: re::math::vec::Vec3<()> = a.apply(&b);
}

pub fn p391() {
    let a: re::math::mat::Mat4x4<re::math::mat::RealToReal<3, re::render::Model, re::render::Model>> = mk();
    let b: re::math::vec::Vec3<re::render::Model> = mk();
    let _r: re::math::vec::Vec3<re::render::World> = a.apply(&b);
}

pub fn p393() {
    let a: re::math::mat::Mat4x4<re::math::mat::RealToReal<3, re::render::Model, re::render::Model>> = mk();
    let b: re::math::vec::Vec3<()> = mk();
    let _r: re::math::vec::Vec3<re::render::Model> = a.apply(&b);
}

pub fn p394() {
    let a: re::math::mat::Mat4x4<re::math::mat::RealToReal<3, re::render::Model, re::render::Model>> = mk();
    let b: re::math::vec::Vec3<()> = mk();
    let _r: re::math::vec::Vec3<()> = a.apply(&b);
}

pub fn p395() {
    let a: re::math::mat::Mat4x4<re::math::mat::RealToReal<3, re::render::Model, re::render::Model>> = mk();
    let b: re::math::vec::Vec3<()> = mk();
    let _r: re::math::vec::Vec3<re::render::World> = a.apply(&b);
}

pub fn p396() {
    let a: re::math::mat::Mat4x4<re::math::mat::RealToReal<3, re::render::Model, re::render::Model>> = mk();
    let b: re::math::vec::Vec3<()> = mk();
    let _ = a.apply(&b);
}

pub fn p397() {
    let a: re::math::mat::Mat4x4<re::math::mat::RealToReal<3, re::render::Model, re::render::Model>> = mk();
    let b: re::math::vec::Vec3<re::render::World> = mk();
    let _r: re::math::vec::Vec3<re::render::Model> = a.apply(&b);
}

pub fn p398() {
    let a: re::math::mat::Mat4x4<re::math::mat::RealToReal<3, re::render::Model, re::render::Model>> = mk();
    let b: re::math::vec::Vec3<re::render::World> = mk();
    let _r: re::math::vec::Vec3<()> = a.apply(&b);
}

pub fn p399() {
    let a: re::math::mat::Mat4x4<re::math::mat::RealToReal<3, re::render::Model, re::render::Model>> = mk();
    let b: re::math::vec::Vec3<re::render::World> = mk();
    let _r: re::math::vec::Vec3<re::render::World> = a.apply(&b);
}

pub fn p400() {
    let a: re::math::mat::Mat4x4<re::math::mat::RealToReal<3, re::render::Model, re::render::Model>> = mk();
    let b: re::math::vec::Vec3<re::render::World> = mk();
    let _ = a.apply(&b);
}

pub fn p401() {
    let a: re::math::mat::Mat4x4<re::math::mat::RealToReal<3, re::render::Model, re::render::Model>> = mk();
    let _ = re::render::cam::Camera::new((8, 8)).mode(a);
}

pub fn p406() {
    let a: re::math::mat::Mat4x4<re::math::mat::RealToReal<3, re::render::Model, ()>> = mk();
    let b: re::math::mat::Mat4x4<re::math::mat::RealToReal<3, re::render::Model, re::render::Model>> = mk();
    let _ = a.then(&b);
}

pub fn p408() {
    let a: re::math::mat::Mat4x4<re::math::mat::RealToReal<3, re::render::Model, ()>> = mk();
    let b: re::math::mat::Mat4x4<re::math::mat::RealToReal<3, re::render::Model, ()>> = mk();
    let _ = a.compose(&b);
}

pub fn p409() {
    let a: re::math::mat::Mat4x4<re::math::mat::RealToReal<3, re::render::Model, ()>> = mk();
    let b: re::math::mat::Mat4x4<re::math::mat::RealToReal<3, re::render::Model, ()>> = mk();
    let _ = a.then(&b);
}

pub fn p410() {
    let a: re::math::mat::Mat4x4<re::math::mat::RealToReal<3, re::render::Model, ()>> = mk();
    let b: re::math::mat::Mat4x4<re::math::mat::RealToReal<3, re::render::Model, re::render::World>> = mk();
    let _ = a.compose(&b);
}

pub fn p411() {
    let a: re::math::mat::Mat4x4<re::math::mat::RealToReal<3, re::render::Model, ()>> = mk();
    let b: re::math::mat::Mat4x4<re::math::mat::RealToReal<3, re::render::Model, re::render::World>> = mk();
    let _ = a.then(&b);
}

pub fn p414() {
    let a: re::math::mat::Mat4x4<re::math::mat::RealToReal<3, re::render::Model, ()>> = mk();
    let b: re::math::mat::Mat4x4<re::math::mat::RealToReal<3, (), ()>> = mk();
    let _ = a.compose(&b);
}

pub fn p416() {
    let a: re::math::mat::Mat4x4<re::math::mat::RealToReal<3, re::render::Model, ()>> = mk();
    let b: re::math::mat::Mat4x4<re::math::mat::RealToReal<3, (), re::render::World>> = mk();
    let _ = a.compose(&b);
}

pub fn p418() {
    let a: re::math::mat::Mat4x4<re::math::mat::RealToReal<3, re::render::Model, ()>> = mk();
    let b: re::math::mat::Mat4x4<re::math::mat::RealToReal<3, re::render::World, re::render::Model>> = mk();
    let _ = a.then(&b);
}

pub fn p420() {
    let a: re::math::mat::Mat4x4<re::math::mat::RealToReal<3, re::render::Model, ()>> = mk();
    let b: re::math::mat::Mat4x4<re::math::mat::RealToReal<3, re::render::World, ()>> = mk();
    let _ = a.compose(&b);
}

pub fn p421() {
    let a: re::math::mat::Mat4x4<re::math::mat::RealToReal<3, re::render::Model, ()>> = mk();
    let b: re::math::mat::Mat4x4<re::math::mat::RealToReal<3, re::render::World, ()>> = mk();
    let _ = a.then(&b);
}

pub fn p422() {
    let a: re::math::mat::Mat4x4<re::math::mat::RealToReal<3, re::render::Model, ()>> = mk();
    let b: re::math::mat::Mat4x4<re::math::mat::RealToReal<3, re::render::World, re::render::World>> = mk();
    let _ = a.compose(&b);
}

pub fn p423() {
    let a: re::math::mat::Mat4x4<re::math::mat::RealToReal<3, re::render::Model, ()>> = mk();
    let b: re::math::mat::Mat4x4<re::math::mat::RealToReal<3, re::render::World, re::render::World>> = mk();
    let _ = a.then(&b);
}

pub fn p424() {
    let a: re::math::mat::Mat4x4<re::math::mat::RealToReal<3, re::render::Model, ()>> = mk();
    let b: re::math::mat::Mat4x4<re::math::mat::RealToProj<re::render::Model>> = mk();
    let _ = a.compose(&b);
}

pub fn p425() {
    let a: re::math::mat::Mat4x4<re::math::mat::RealToReal<3, re::render::Model, ()>> = mk();
    let b: re::math::mat::Mat4x4<re::math::mat::RealToProj<re::render::Model>> = mk();
    let _ = a.then(&b);
}

pub fn p426() {
    let a: re::math::mat::Mat4x4<re::math::mat::RealToReal<3, re::render::Model, ()>> = mk();
    let b: re::math::mat::Mat4x4<re::math::mat::RealToProj<()>> = mk();
    let _ = a.compose(&b);
}

pub fn p428() {
    let a: re::math::mat::Mat4x4<re::math::mat::RealToReal<3, re::render::Model, ()>> = mk();
    let b: re::math::mat::Mat4x4<re::math::mat::RealToProj<re::render::World>> = mk();
    let _ = a.compose(&b);
}

pub fn p429() {
    let a: re::math::mat::Mat4x4<re::math::mat::RealToReal<3, re::render::Model, ()>> = mk();
    let b: re::math::mat::Mat4x4<re::math::mat::RealToProj<re::render::World>> = mk();
    let _ = a.then(&b);
}

pub fn p430() {
    let a: re::math::mat::Mat4x4<re::math::mat::RealToReal<3, re::render::Model, ()>> = mk();
    let b: re::math::point::Point2<re::render::Model> = mk();
    let _ = a.apply_pt(&b);
}

pub fn p431() {
    let a: re::math::mat::Mat4x4<re::math::mat::RealToReal<3, re::render::Model, ()>> = mk();
    let b: re::math::point::Point2<()> = mk();
    let _ = a.apply_pt(&b);
}

pub fn p432() {
    let a: re::math::mat::Mat4x4<re::math::mat::RealToReal<3, re::render::Model, ()>> = mk();
    let b: re::math::point::Point2<re::render::World> = mk();
    let _ = a.apply_pt(&b);
}

pub fn p433() {
    let a: re::math::mat::Mat4x4<re::math::mat::RealToReal<3, re::render::Model, ()>> = mk();
    let b: re::math::point::Point3<re::render::Model> = mk();
    let _r: re::math::point::Point3<re::render::Model> = a.apply_pt(&b);
}

pub fn p435() {
    let a: re::math::mat::Mat4x4<re::math::mat::RealToReal<3, re::render::Model, ()>> = mk();
    let b: re::math::point::Point3<re::render::Model> = mk();
    let _r: re::math::point::Point3<re::render::World> = a.apply_pt(&b);
}

pub fn p437() {
    let a: re::math::mat::Mat4x4<re::math::mat::RealToReal<3, re::render::Model, ()>> = mk();
    let b: re::math::point::Point3<()> = mk();
    let _r: re::math::point::Point3<re::render::Model> = a.apply_pt(&b);
}

pub fn p438() {
    let a: re::math::mat::Mat4x4<re::math::mat::RealToReal<3, re::render::Model, ()>> = mk();
    let b: re::math::point::Point3<()> = mk();
    let _r: re::math::point::Point3<()> = a.apply_pt(&b);
}

pub fn p439() {
    let a: re::math::mat::Mat4x4<re::math::mat::RealToReal<3, re::render::Model, ()>> = mk();
    let b: re::math::point::Point3<()> = mk();
    let _r: re::math::point::Point3<re::render::World> = a.apply_pt(&b);
}

pub fn p440() {
    let a: re::math::mat::Mat4x4<re::math::mat::RealToReal<3, re::render::Model, ()>> = mk();
    let b: re::math::point::Point3<()> = mk();
    let _ = a.apply_pt(&b);
}

pub fn p441() {
    let a: re::math::mat::Mat4x4<re::math::mat::RealToReal<3, re::render::Model, ()>> = mk();
    let b: re::math::point::Point3<re::render::World> = mk();
    let _r: re::math::point::Point3<re::render::Model> = a.apply_pt(&b);
}

pub fn p442() {
    let a: re::math::mat::Mat4x4<re::math::mat::RealToReal<3, re::render::Model, ()>> = mk();
    let b: re::math::point::Point3<re::render::World> = mk();
    let _r: re::math::point::Point3<()> = a.apply_pt(&b);
}

pub fn p443() {
    let a: re::math::mat::Mat4x4<re::math::mat::RealToReal<3, re::render::Model, ()>> = mk();
    let b: re::math::point::Point3<re::render::World> = mk();
    let _r: re::math::point::Point3<re::render::World> = a.apply_pt(&b);
}

pub fn p444() {
    let a: re::math::mat::Mat4x4<re::math::mat::RealToReal<3, re::render::Model, ()>> = mk();
    let b: re::math::point::Point3<re::render::World> = mk();
    let _ = a.apply_pt(&b);
}

pub fn p445() {
    let a: re::math::mat::Mat4x4<re::math::mat::RealToReal<3, re::render::Model, ()>> = mk();
    let b: re::math::vec::Vec2<re::render::Model> = mk();
    let _ = a.apply(&b);
}

pub fn p446() {
    let a: re::math::mat::Mat4x4<re::math::mat::RealToReal<3, re::render::Model, ()>> = mk();
    let b: re::math::vec::Vec2<()> = mk();
    let _ = a.apply(&b);
}

pub fn p447() {
    let a: re::math::mat::Mat4x4<re::math::mat::RealToReal<3, re::render::Model, ()>> = mk();
    let b: re::math::vec::Vec2<re::render::World> = mk();
    let _ = a.apply(&b);
}

pub fn p448() {
    let a: re::math::mat::Mat4x4<re::math::mat::RealToReal<3, re::render::Model, ()>> = mk();
    let b: re::math::vec::Vec3<re::render::Model> = mk();
    let _r: re::math::vec::Vec3<re::render::Model> = a.apply(&b);
}

pub fn p450() {
    let a: re::math::mat::Mat4x4<re::math::mat::RealToReal<3, re::render::Model, ()>> = mk();
    let b: re::math::vec::Vec3<re::render::Model> = mk();
    let _r: re::math::vec::Vec3<re::render::World> = a.apply(&b);
}

pub fn p452() {
    let a: re::math::mat::Mat4x4<re::math::mat::RealToReal<3, re::render::Model, ()>> = mk();
    let b: re::math::vec::Vec3<()> = mk();
    let _r: re::math::vec::Vec3<re::render::Model> = a.apply(&b);
}

pub fn p453() {
    let a: re::math::mat::Mat4x4<re::math::mat::RealToReal<3, re::render::Model, ()>> = mk();
    let b: re::math::vec::Vec3<()> = mk();
    let _r: re::math::vec::Vec3<()> = a.apply(&b);
}

pub fn p454() {
    let a: re::math::mat::Mat4x4<re::math::mat::RealToReal<3, re::render::Model, ()>> = mk();
    let b: re::math::vec::Vec3<()> = mk();
    let _r: re::math::vec::Vec3<re::render::World> = a.apply(&b);
}

pub fn p455() {
    let a: re::math::mat::Mat4x4<re::math::mat::RealToReal<3, re::render::Model, ()>> = mk();
    let b: re::math::vec::Vec3<()> = mk();
    let _ = a.apply(&b);
}

pub fn p456() {
    let a: re::math::mat::Mat4x4<re::math::mat::RealToReal<3, re::render::Model, ()>> = mk();
    let b: re::math::vec::Vec3<re::render::World> = mk();
    let _r: re::math::vec::Vec3<re::render::Model> = a.apply(&b);
}

pub fn p457() {
    let a: re::math::mat::Mat4x4<re::math::mat::RealToReal<3, re::render::Model, ()>> = mk();
    let b: re::math::vec::Vec3<re::render::World> = mk();
    let _r: re::math::vec::Vec3<()> = a.apply(&b);
}

pub fn p458() {
    let a: re::math::mat::Mat4x4<re::math::mat::RealToReal<3, re::render::Model, ()>> = mk();
    let b: re::math::vec::Vec3<re::render::World> = mk();
    let _r: re::math::vec::Vec3<re::render::World> = a.apply(&b);
}

pub fn p459() {
    let a: re::math::mat::Mat4x4<re::math::mat::RealToReal<3, re::render::Model, ()>> = mk();
    let b: re::math::vec::Vec3<re::render::World> = mk();
    let _ = a.apply(&b);
}

pub fn p463() {
    let a: re::math::mat::Mat4x4<re::math::mat::RealToReal<3, re::render::Model, re::render::View>> = mk();
    let b: re::math::mat::Mat4x4<re::render::ModelToProj> = mk();
    let _ = a.then(&b);
}

pub fn p464() {
    let a: re::math::mat::Mat4x4<re::math::mat::RealToReal<3, re::render::Model, re::render::View>> = mk();
    let b: re::math::mat::Mat4x4<re::render::ModelToView> = mk();
    let _ = a.then(&b);
}

pub fn p465() {
    let a: re::math::mat::Mat4x4<re::math::mat::RealToReal<3, re::render::Model, re::render::View>> = mk();
    let b: re::math::mat::Mat4x4<re::render::ModelToWorld> = mk();
    let _ = a.then(&b);
}

pub fn p467() {
    let a: re::math::mat::Mat4x4<re::math::mat::RealToReal<3, re::render::Model, re::render::View>> = mk();
    let b: re::math::mat::Mat4x4<re::render::WorldToView> = mk();
    let _ = a.then(&b);
}

pub fn p468() {
    let a: re::math::mat::Mat4x4<re::math::mat::RealToReal<3, re::render::Model, re::render::View>> = mk();
    let b: re::math::point::Point3<re::render::Model> = mk();
    let _ = a.apply(&b);
}

pub fn p470() {
    let a: re::math::mat::Mat4x4<re::math::mat::RealToReal<3, re::render::Model, re::render::View>> = mk();
    let b: re::math::point::Point3<re::render::View> = mk();
    let _ = a.apply(&b);
}

pub fn p471() {
    let a: re::math::mat::Mat4x4<re::math::mat::RealToReal<3, re::render::Model, re::render::View>> = mk();
    let b: re::math::point::Point3<re::render::View> = mk();
    let _ = a.apply_pt(&b);
}

pub fn p472() {
    let a: re::math::mat::Mat4x4<re::math::mat::RealToReal<3, re::render::Model, re::render::View>> = mk();
    let b: re::math::point::Point3<re::render::World> = mk();
    let _ = a.apply(&b);
}

pub fn p473() {
    let a: re::math::mat::Mat4x4<re::math::mat::RealToReal<3, re::render::Model, re::render::View>> = mk();
    let b: re::math::point::Point3<re::render::World> = mk();
    let _ = a.apply_pt(&b);
}

pub fn p474() {
    let a: re::math::mat::Mat4x4<re::math::mat::RealToReal<3, re::render::Model, re::render::View>> = mk();
    let _ = re::render::cam::Camera::new((8, 8)).mode(a);
}

pub fn p476() {
    let a: re::math::mat::Mat4x4<re::math::mat::RealToReal<3, re::render::Model, re::render::World>> = mk();
    let b: re::math::mat::Mat4x4<re::render::ModelToProj> = mk();
    let _ = a.then(&b);
}

pub fn p477() {
    let a: re::math::mat::Mat4x4<re::math::mat::RealToReal<3, re::render::Model, re::render::World>> = mk();
    let b: re::math::mat::Mat4x4<re::render::ModelToView> = mk();
    let _ = a.then(&b);
}

pub fn p478() {
    let a: re::math::mat::Mat4x4<re::math::mat::RealToReal<3, re::render::Model, re::render::World>> = mk();
    let b: re::math::mat::Mat4x4<re::render::ModelToWorld> = mk();
    let _ = a.then(&b);
}

pub fn p479() {
    let a: re::math::mat::Mat4x4<re::math::mat::RealToReal<3, re::render::Model, re::render::World>> = mk();
    let b: re::math::mat::Mat4x4<re::render::ViewToProj> = mk();
    let _ = a.then(&b);
}

pub fn p481() {
    let a: re::math::mat::Mat4x4<re::math::mat::RealToReal<3, re::render::Model, re::render::World>> = mk();
    let b: re::math::mat::Mat4x4<re::math::mat::RealToReal<3, re::render::Model, re::render::Model>> = mk();
    let _r: re::math::mat::Mat4x4<re::math::mat::RealToReal<3, re::render::Model, re::render::Model>> = a.compose(&b);
}

pub fn p483() {
    let a: re::math::mat::Mat4x4<re::math::mat::RealToReal<3, re::render::Model, re::render::World>> = mk();
    let b: re::math::mat::Mat4x4<re::math::mat::RealToReal<3, re::render::Model, re::render::Model>> = mk();
    let _r: re::math::mat::Mat4x4<re::math::mat::RealToReal<3, re::render::World, re::render::Model>> = a.compose(&b);
}

pub fn p484() {
    let a: re::math::mat::Mat4x4<re::math::mat::RealToReal<3, re::render::Model, re::render::World>> = mk();
    let b: re::math::mat::Mat4x4<re::math::mat::RealToReal<3, re::render::Model, re::render::Model>> = mk();
    let _r: re::math::mat::Mat4x4<re::math::mat::RealToReal<3, re::render::World, re::render::World>> = a.compose(&b);
}

pub fn p485() {
    let a: re::math::mat::Mat4x4<re::math::mat::RealToReal<3, re::render::Model, re::render::World>> = mk();
    let b: re::math::mat::Mat4x4<re::math::mat::RealToReal<3, re::render::Model, re::render::Model>> = mk();
    let _ = a.then(&b);
}

pub fn p487() {
    let a: re::math::mat::Mat4x4<re::math::mat::RealToReal<3, re::render::Model, re::render::World>> = mk();
    let b: re::math::mat::Mat4x4<re::math::mat::RealToReal<3, re::render::Model, ()>> = mk();
    let _ = a.compose(&b);
}

pub fn p488() {
    let a: re::math::mat::Mat4x4<re::math::mat::RealToReal<3, re::render::Model, re::render::World>> = mk();
    let b: re::math::mat::Mat4x4<re::math::mat::RealToReal<3, re::render::Model, ()>> = mk();
    let _ = a.then(&b);
}

pub fn p489() {
    let a: re::math::mat::Mat4x4<re::math::mat::RealToReal<3, re::render::Model, re::render::World>> = mk();
    let b: re::math::mat::Mat4x4<re::math::mat::RealToReal<3, re::render::Model, re::render::World>> = mk();
    let _r: re::math::mat::Mat4x4<re::math::mat::RealToReal<3, re::render::Model, re::render::Model>> = a.compose(&b);
}

pub fn p490() {
    let a: re::math::mat::Mat4x4<re::math::mat::RealToReal<3, re::render::Model, re::render::World>> = mk();
    let b: re::math::mat::Mat4x4<re::math::mat::RealToReal<3, re::render::Model, re::render::World>> = mk();
    let _r: re::math::mat::Mat4x4<re::math::mat::RealToReal<3, re::render::Model, re::render::World>> = a.compose(&b);
}

pub fn p491() {
    let a: re::math::mat::Mat4x4<re::math::mat::RealToReal<3, re::render::Model, re::render::World>> = mk();
    let b: re::math::mat::Mat4x4<re::math::mat::RealToReal<3, re::render::Model, re::render::World>> = mk();
    let _r: re::math::mat::Mat4x4<re::math::mat::RealToReal<3, re::render::World, re::render::Model>> = a.compose(&b);
}

pub fn p492() {
    let a: re::math::mat::Mat4x4<re::math::mat::RealToReal<3, re::render::Model, re::render::World>> = mk();
    let b: re::math::mat::Mat4x4<re::math::mat::RealToReal<3, re::render::Model, re::render::World>> = mk();
    let _r: re::math::mat::Mat4x4<re::math::mat::RealToReal<3, re::render::World, re::render::World>> = a.compose(&b);
}

pub fn p493() {
    let a: re::math::mat::Mat4x4<re::math::mat::RealToReal<3, re::render::Model, re::render::World>> = mk();
    let b: re::math::mat::Mat4x4<re::math::mat::RealToReal<3, re::render::Model, re::render::World>> = mk();
    let _ = a.compose(&b);
}

pub fn p494() {
    let a: re::math::mat::Mat4x4<re::math::mat::RealToReal<3, re::render::Model, re::render::World>> = mk();
    let b: re::math::mat::Mat4x4<re::math::mat::RealToReal<3, re::render::Model, re::render::World>> = mk();
    let _ = a.then(&b);
}

pub fn p495() {
    let a: re::math::mat::Mat4x4<re::math::mat::RealToReal<3, re::render::Model, re::render::World>> = mk();
    let b: re::math::mat::Mat4x4<re::math::mat::RealToReal<3, (), re::render::Model>> = mk();
    let _ = a.then(&b);
}

pub fn p497() {
    let a: re::math::mat::Mat4x4<re::math::mat::RealToReal<3, re::render::Model, re::render::World>> = mk();
    let b: re::math::mat::Mat4x4<re::math::mat::RealToReal<3, (), ()>> = mk();
    let _ = a.compose(&b);
}

pub fn p498() {
    let a: re::math::mat::Mat4x4<re::math::mat::RealToReal<3, re::render::Model, re::render::World>> = mk();
    let b: re::math::mat::Mat4x4<re::math::mat::RealToReal<3, (), ()>> = mk();
    let _ = a.then(&b);
}

pub fn p499() {
    let a: re::math::mat::Mat4x4<re::math::mat::RealToReal<3, re::render::Model, re::render::World>> = mk();
    let b: re::math::mat::Mat4x4<re::math::mat::RealToReal<3, (), re::render::World>> = mk();
    let _ = a.compose(&b);
}

pub fn p500() {
    let a: re::math::mat::Mat4x4<re::math::mat::RealToReal<3, re::render::Model, re::render::World>> = mk();
    let b: re::math::mat::Mat4x4<re::math::mat::RealToReal<3, (), re::render::World>> = mk();
    let _ = a.then(&b);
}

pub fn p501() {
    let a: re::math::mat::Mat4x4<re::math::mat::RealToReal<3, re::render::Model, re::render::World>> = mk();
    let b: re::math::mat::Mat4x4<re::math::mat::RealToReal<3, re::render::World, re::render::Model>> = mk();
    let _r: re::math::mat::Mat4x4<re::math::mat::RealToReal<3, re::render::Model, re::render::Model>> = a.compose(&b);
}

pub fn p502() {
    let a: re::math::mat::Mat4x4<re::math::mat::RealToReal<3, re::render::Model, re::render::World>> = mk();
    let b: re::math::mat::Mat4x4<re::math::mat::RealToReal<3, re::render::World, re::render::Model>> = mk();
    let _r: re::math::mat::Mat4x4<re::math::mat::RealToReal<3, re::render::Model, re::render::World>> = a.compose(&b);
}

pub fn p503() {
    let a: re::math::mat::Mat4x4<re::math::mat::RealToReal<3, re::render::Model, re::render::World>> = mk();
    let b: re::math::mat::Mat4x4<re::math::mat::RealToReal<3, re::render::World, re::render::Model>> = mk();
    let _r: re::math::mat::Mat4x4<re::math::mat::RealToReal<3, re::render::World, re::render::Model>> = a.compose(&b);
}

pub fn p507() {
    let a: re::math::mat::Mat4x4<re::math::mat::RealToReal<3, re::render::Model, re::render::World>> = mk();
    let b: re::math::mat::Mat4x4<re::math::mat::RealToReal<3, re::render::World, ()>> = mk();
    let _ = a.compose(&b);
}

pub fn p509() {
    let a: re::math::mat::Mat4x4<re::math::mat::RealToReal<3, re::render::Model, re::render::World>> = mk();
    let b: re::math::mat::Mat4x4<re::math::mat::RealToReal<3, re::render::World, re::render::World>> = mk();
    let _r: re::math::mat::Mat4x4<re::math::mat::RealToReal<3, re::render::Model, re::render::Model>> = a.compose(&b);
}

pub fn p510() {
    let a: re::math::mat::Mat4x4<re::math::mat::RealToReal<3, re::render::Model, re::render::World>> = mk();
    let b: re::math::mat::Mat4x4<re::math::mat::RealToReal<3, re::render::World, re::render::World>> = mk();
    let _r: re::math::mat::Mat4x4<re::math::mat::RealToReal<3, re::render::Model, re::render::World>> = a.compose(&b);
}

pub fn p511() {
    let a: re::math::mat::Mat4x4<re::math::mat::RealToReal<3, re::render::Model, re::render::World>> = mk();
    let b: re::math::mat::Mat4x4<re::math::mat::RealToReal<3, re::render::World, re::render::World>> = mk();
    let _r: re::math::mat::Mat4x4<re::math::mat::RealToReal<3, re::render::World, re::render::Model>> = a.compose(&b);
}

pub fn p512() {
    let a: re::math::mat::Mat4x4<re::math::mat::RealToReal<3, re::render::Model, re::render::World>> = mk();
    let b: re::math::mat::Mat4x4<re::math::mat::RealToReal<3, re::render::World, re::render::World>> = mk();
    let _r: re::math::mat::Mat4x4<re::math::mat::RealToReal<3, re::render::World, re::render::World>> = a.compose(&b);
}

pub fn p513() {
    let a: re::math::mat::Mat4x4<re::math::mat::RealToReal<3, re::render::Model, re::render::World>> = mk();
    let b: re::math::mat::Mat4x4<re::math::mat::RealToReal<3, re::render::World, re::render::World>> = mk();
    let _ = a.compose(&b);
}

pub fn p515() {
    let a: re::math::mat::Mat4x4<re::math::mat::RealToReal<3, re::render::Model, re::render::World>> = mk();
    let b: re::math::mat::Mat4x4<re::math::mat::RealToProj<re::render::Model>> = mk();
    let _ = a.compose(&b);
}

pub fn p516() {
    let a: re::math::mat::Mat4x4<re::math::mat::RealToReal<3, re::render::Model, re::render::World>> = mk();
    let b: re::math::mat::Mat4x4<re::math::mat::RealToProj<re::render::Model>> = mk();
    let _ = a.then(&b);
}

pub fn p517() {
    let a: re::math::mat::Mat4x4<re::math::mat::RealToReal<3, re::render::Model, re::render::World>> = mk();
    let b: re::math::mat::Mat4x4<re::math::mat::RealToProj<()>> = mk();
    let _ = a.compose(&b);
}

pub fn p518() {
    let a: re::math::mat::Mat4x4<re::math::mat::RealToReal<3, re::render::Model, re::render::World>> = mk();
    let b: re::math::mat::Mat4x4<re::math::mat::RealToProj<()>> = mk();
    let _ = a.then(&b);
}

pub fn p519() {
    let a: re::math::mat::Mat4x4<re::math::mat::RealToReal<3, re::render::Model, re::render::World>> = mk();
    let b: re::math::mat::Mat4x4<re::math::mat::RealToProj<re::render::World>> = mk();
    let _ = a.compose(&b);
}

pub fn p521() {
    let a: re::math::mat::Mat4x4<re::math::mat::RealToReal<3, re::render::Model, re::render::World>> = mk();
    let b: re::math::point::Point2<re::render::Model> = mk();
    let _ = a.apply_pt(&b);
}

pub fn p522() {
    let a: re::math::mat::Mat4x4<re::math::mat::RealToReal<3, re::render::Model, re::render::World>> = mk();
    let b: re::math::point::Point2<()> = mk();
    let _ = a.apply_pt(&b);
}

pub fn p523() {
    let a: re::math::mat::Mat4x4<re::math::mat::RealToReal<3, re::render::Model, re::render::World>> = mk();
    let b: re::math::point::Point2<re::render::World> = mk();
    let _ = a.apply_pt(&b);
}

pub fn p524() {
    let a: re::math::mat::Mat4x4<re::math::mat::RealToReal<3, re::render::Model, re::render::World>> = mk();
    let b: re::math::point::Point3<re::render::Model> = mk();
    let _r: re::math::point::Point3<re::render::Model> = a.apply_pt(&b);
}

pub fn p525() {
    let a: re::math::mat::Mat4x4<re::math::mat::RealToReal<3, re::render::Model, re::render::World>> = mk();
    let b: re::math::point::Point3<re::render::Model> = mk();
    let _r: re::math::point::Point3<()> = a.apply_pt(&b);
}

pub fn p527() {
    let a: re::math::mat::Mat4x4<re::math::mat::RealToReal<3, re::render::Model, re::render::World>> = mk();
    let b: re::math::point::Point3<re::render::Model> = mk();
    let _ = a.apply(&b);
}

pub fn p529() {
    let a: re::math::mat::Mat4x4<re::math::mat::RealToReal<3, re::render::Model, re::render::World>> = mk();
    let b: re::math::point::Point3<()> = mk();
    let _r: re::math::point::Point3<re::render::Model> = a.apply_pt(&b);
}

pub fn p530() {
    let a: re::math::mat::Mat4x4<re::math::mat::RealToReal<3, re::render::Model, re::render::World>> = mk();
    let b: re::math::point::Point3<()> = mk();
    let _r: re::math::point::Point3<()> = a.apply_pt(&b);
}

pub fn p531() {
    let a: re::math::mat::Mat4x4<re::math::mat::RealToReal<3, re::render::Model, re::render::World>> = mk();
    let b: re::math::point::Point3<()> = mk();
    let _r: re::math::point::Point3<re::render::World> = a.apply_pt(&b);
}

pub fn p532() {
    let a: re::math::mat::Mat4x4<re::math::mat::RealToReal<3, re::render::Model, re::render::World>> = mk();
    let b: re::math::point::Point3<()> = mk();
    let _ = a.apply_pt(&b);
}

pub fn p533() {
    let a: re::math::mat::Mat4x4<re::math::mat::RealToReal<3, re::render::Model, re::render::World>> = mk();
    let b: re::math::point::Point3<re::render::View> = mk();
    let _ = a.apply(&b);
}

pub fn p534() {
    let a: re::math::mat::Mat4x4<re::math::mat::RealToReal<3, re::render::Model, re::render::World>> = mk();
    let b: re::math::point::Point3<re::render::View> = mk();
    let _ = a.apply_pt(&b);
}

pub fn p535() {
    let a: re::math::mat::Mat4x4<re::math::mat::RealToReal<3, re::render::Model, re::render::World>> = mk();
    let b: re::math::point::Point3<re::render::World> = mk();
    let _r: re::math::point::Point3<re::render::Model> = a.apply_pt(&b);
}

pub fn p536() {
    let a: re::math::mat::Mat4x4<re::math::mat::RealToReal<3, re::render::Model, re::render::World>> = mk();
    let b: re::math::point::Point3<re::render::World> = mk();
    let _r: re::math::point::Point3<()> = a.apply_pt(&b);
}

pub fn p537() {
    let a: re::math::mat::Mat4x4<re::math::mat::RealToReal<3, re::render::Model, re::render::World>> = mk();
    let b: re::math::point::Point3<re::render::World> = mk();
    let _r: re::math::point::Point3<re::render::World> = a.apply_pt(&b);
}

pub fn p538() {
    let a: re::math::mat::Mat4x4<re::math::mat::RealToReal<3, re::render::Model, re::render::World>> = mk();
    let b: re::math::point::Point3<re::render::World> = mk();
    let _ = a.apply(&b);
}

pub fn p539() {
    let a: re::math::mat::Mat4x4<re::math::mat::RealToReal<3, re::render::Model, re::render::World>> = mk();
    let b: re::math::point::Point3<re::render::World> = mk();
    let _ = a.apply_pt(&b);
}

pub fn p540() {
    let a: re::math::mat::Mat4x4<re::math::mat::RealToReal<3, re::render::Model, re::render::World>> = mk();
    let b: re::math::vec::Vec2<re::render::Model> = mk();
    let _ = a.apply(&b);
}

pub fn p541() {
    let a: re::math::mat::Mat4x4<re::math::mat::RealToReal<3, re::render::Model, re::render::World>> = mk();
    let b: re::math::vec::Vec2<()> = mk();
    let _ = a.apply(&b);
}

pub fn p542() {
    let a: re::math::mat::Mat4x4<re::math::mat::RealToReal<3, re::render::Model, re::render::World>> = mk();
    let b: re::math::vec::Vec2<re::render::World> = mk();
    let _ = a.apply(&b);
}

pub fn p543() {
    let a: re::math::mat::Mat4x4<re::math::mat::RealToReal<3, re::render::Model, re::render::World>> = mk();
    let b: re::math::vec::Vec3<re::render::Model> = mk();
    let _r: re::math::vec::Vec3<re::render::Model> = a.apply(&b);
}

pub fn p544() {
    let a: re::math::mat::Mat4x4<re::math::mat::RealToReal<3, re::render::Model, re::render::World>> = mk();
    let b: re::math::vec::Vec3<re::render::Model> = mk();
    let _r: re::math::vec::Vec3<()> = a.apply(&b);
}

pub fn p547() {
    let a: re::math::mat::Mat4x4<re::math::mat::RealToReal<3, re::render::Model, re::render::World>> = mk();
    let b: re::math::vec::Vec3<()> = mk();
    let _r: re::math::vec::Vec3<re::render::Model> = a.apply(&b);
}

pub fn p548() {
    let a: re::math::mat::Mat4x4<re::math::mat::RealToReal<3, re::render::Model, re::render::World>> = mk();
    let b: re::math::vec::Vec3<()> = mk();
    let _r: re::math::vec::Vec3<()> = a.apply(&b);
}

pub fn p549() {
    let a: re::math::mat::Mat4x4<re::math::mat::RealToReal<3, re::render::Model, re::render::World>> = mk();
    let b: re::math::vec::Vec3<()> = mk();
    let _r: re::math::vec::Vec3<re::render::World> = a.apply(&b);
}

pub fn p550() {
    let a: re::math::mat::Mat4x4<re::math::mat::RealToReal<3, re::render::Model, re::render::World>> = mk();
    let b: re::math::vec::Vec3<()> = mk();
    let _ = a.apply(&b);
}

pub fn p551() {
    let a: re::math::mat::Mat4x4<re::math::mat::RealToReal<3, re::render::Model, re::render::World>> = mk();
    let b: re::math::vec::Vec3<re::render::World> = mk();
    let _r: re::math::vec::Vec3<re::render::Model> = a.apply(&b);
}

pub fn p552() {
    let a: re::math::mat::Mat4x4<re::math::mat::RealToReal<3, re::render::Model, re::render::World>> = mk();
    let b: re::math::vec::Vec3<re::render::World> = mk();
    let _r: re::math::vec::Vec3<()> = a.apply(&b);
}

pub fn p553() {
    let a: re::math::mat::Mat4x4<re::math::mat::RealToReal<3, re::render::Model, re::render::World>> = mk();
    let b: re::math::vec::Vec3<re::render::World> = mk();
    let _r: re::math::vec::Vec3<re::render::World> = a.apply(&b);
}

pub fn p554() {
    let a: re::math::mat::Mat4x4<re::math::mat::RealToReal<3, re::render::Model, re::render::World>> = mk();
    let b: re::math::vec::Vec3<re::render::World> = mk();
    let _ = a.apply(&b);
}

pub fn p555() {
    let a: re::math::mat::Mat4x4<re::math::mat::RealToReal<3, re::render::Model, re::render::World>> = mk();
    let _ = re::render::cam::Camera::new((8, 8)).mode(a);
}

pub fn p560() {
    let a: re::math::mat::Mat4x4<re::math::mat::RealToReal<3, (), re::render::Model>> = mk();
    let b: re::math::mat::Mat4x4<re::math::mat::RealToReal<3, re::render::Model, re::render::Model>> = mk();
    let _ = a.compose(&b);
}

pub fn p564() {
    let a: re::math::mat::Mat4x4<re::math::mat::RealToReal<3, (), re::render::Model>> = mk();
    let b: re::math::mat::Mat4x4<re::math::mat::RealToReal<3, re::render::Model, re::render::World>> = mk();
    let _ = a.compose(&b);
}

pub fn p566() {
    let a: re::math::mat::Mat4x4<re::math::mat::RealToReal<3, (), re::render::Model>> = mk();
    let b: re::math::mat::Mat4x4<re::math::mat::RealToReal<3, (), re::render::Model>> = mk();
    let _ = a.compose(&b);
}

pub fn p567() {
    let a: re::math::mat::Mat4x4<re::math::mat::RealToReal<3, (), re::render::Model>> = mk();
    let b: re::math::mat::Mat4x4<re::math::mat::RealToReal<3, (), re::render::Model>> = mk();
    let _ = a.then(&b);
}

pub fn p568() {
    let a: re::math::mat::Mat4x4<re::math::mat::RealToReal<3, (), re::render::Model>> = mk();
    let b: re::math::mat::Mat4x4<re::math::mat::RealToReal<3, (), ()>> = mk();
    let _ = a.then(&b);
}

pub fn p570() {
    let a: re::math::mat::Mat4x4<re::math::mat::RealToReal<3, (), re::render::Model>> = mk();
    let b: re::math::mat::Mat4x4<re::math::mat::RealToReal<3, (), re::render::World>> = mk();
    let _ = a.compose(&b);
}

pub fn p571() {
    let a: re::math::mat::Mat4x4<re::math::mat::RealToReal<3, (), re::render::Model>> = mk();
    let b: re::math::mat::Mat4x4<re::math::mat::RealToReal<3, (), re::render::World>> = mk();
    let _ = a.then(&b);
}

pub fn p572() {
    let a: re::math::mat::Mat4x4<re::math::mat::RealToReal<3, (), re::render::Model>> = mk();
    let b: re::math::mat::Mat4x4<re::math::mat::RealToReal<3, re::render::World, re::render::Model>> = mk();
    let _ = a.compose(&b);
}

pub fn p573() {
    let a: re::math::mat::Mat4x4<re::math::mat::RealToReal<3, (), re::render::Model>> = mk();
    let b: re::math::mat::Mat4x4<re::math::mat::RealToReal<3, re::render::World, re::render::Model>> = mk();
    let _ = a.then(&b);
}

pub fn p574() {
    let a: re::math::mat::Mat4x4<re::math::mat::RealToReal<3, (), re::render::Model>> = mk();
    let b: re::math::mat::Mat4x4<re::math::mat::RealToReal<3, re::render::World, ()>> = mk();
    let _ = a.then(&b);
}

pub fn p576() {
    let a: re::math::mat::Mat4x4<re::math::mat::RealToReal<3, (), re::render::Model>> = mk();
    let b: re::math::mat::Mat4x4<re::math::mat::RealToReal<3, re::render::World, re::render::World>> = mk();
    let _ = a.compose(&b);
}

pub fn p577() {
    let a: re::math::mat::Mat4x4<re::math::mat::RealToReal<3, (), re::render::Model>> = mk();
    let b: re::math::mat::Mat4x4<re::math::mat::RealToReal<3, re::render::World, re::render::World>> = mk();
    let _ = a.then(&b);
}

pub fn p578() {
    let a: re::math::mat::Mat4x4<re::math::mat::RealToReal<3, (), re::render::Model>> = mk();
    let b: re::math::mat::Mat4x4<re::math::mat::RealToProj<re::render::Model>> = mk();
    let _ = a.compose(&b);
}

pub fn p580() {
    let a: re::math::mat::Mat4x4<re::math::mat::RealToReal<3, (), re::render::Model>> = mk();
    let b: re::math::mat::Mat4x4<re::math::mat::RealToProj<()>> = mk();
    let _ = a.compose(&b);
}

pub fn p581() {
    let a: re::math::mat::Mat4x4<re::math::mat::RealToReal<3, (), re::render::Model>> = mk();
    let b: re::math::mat::Mat4x4<re::math::mat::RealToProj<()>> = mk();
    let _ = a.then(&b);
}

pub fn p582() {
    let a: re::math::mat::Mat4x4<re::math::mat::RealToReal<3, (), re::render::Model>> = mk();
    let b: re::math::mat::Mat4x4<re::math::mat::RealToProj<re::render::World>> = mk();
    let _ = a.compose(&b);
}

pub fn p583() {
    let a: re::math::mat::Mat4x4<re::math::mat::RealToReal<3, (), re::render::Model>> = mk();
    let b: re::math::mat::Mat4x4<re::math::mat::RealToProj<re::render::World>> = mk();
    let _ = a.then(&b);
}

pub fn p584() {
    let a: re::math::mat::Mat4x4<re::math::mat::RealToReal<3, (), re::render::Model>> = mk();
    let b: re::math::point::Point2<re::render::Model> = mk();
    let _ = a.apply_pt(&b);
}

pub fn p585() {
    let a: re::math::mat::Mat4x4<re::math::mat::RealToReal<3, (), re::render::Model>> = mk();
    let b: re::math::point::Point2<()> = mk();
    let _ = a.apply_pt(&b);
}

pub fn p586() {
    let a: re::math::mat::Mat4x4<re::math::mat::RealToReal<3, (), re::render::Model>> = mk();
    let b: re::math::point::Point2<re::render::World> = mk();
    let _ = a.apply_pt(&b);
}

pub fn p587() {
    let a: re::math::mat::Mat4x4<re::math::mat::RealToReal<3, (), re::render::Model>> = mk();
    let b: re::math::point::Point3<re::render::Model> = mk();
    let _r: re::math::point::Point3<re::render::Model> = a.apply_pt(&b);
}

pub fn p588() {
    let a: re::math::mat::Mat4x4<re::math::mat::RealToReal<3, (), re::render::Model>> = mk();
    let b: re::math::point::Point3<re::render::Model> = mk();
    let _r: re::math::point::Point3<()> = a.apply_pt(&b);
}

pub fn p589() {
    let a: re::math::mat::Mat4x4<re::math::mat::RealToReal<3, (), re::render::Model>> = mk();
    let b: re::math::point::Point3<re::render::Model> = mk();
    let _r: re::math::point::Point3<re::render::World> = a.apply_pt(&b);
}

pub fn p590() {
    let a: re::math::mat::Mat4x4<re::math::mat::RealToReal<3, (), re::render::Model>> = mk();
    let b: re::math::point::Point3<re::render::Model> = mk();
    let _ = a.apply_pt(&b);
}

pub fn p592() {
    let a: re::math::mat::Mat4x4<re::math::mat::RealToReal<3, (), re::render::Model>> = mk();
    let b: re::math::point::Point3<()> = mk();
    let _r: re::math::point::Point3<()> = a.apply_pt(&b);
}

pub fn p593() {
    let a: re::math::mat::Mat4x4<re::math::mat::RealToReal<3, (), re::render::Model>> = mk();
    let b: re::math::point::Point3<()> = mk();
    let _r: re::math::point::Point3<re::render::World> = a.apply_pt(&b);
}

pub fn p595() {
    let a: re::math::mat::Mat4x4<re::math::mat::RealToReal<3, (), re::render::Model>> = mk();
    let b: re::math::point::Point3<re::render::World> = mk();
    let _r: re::math::point::Point3<re::render::Model> = a.apply_pt(&b);
}

pub fn p596() {
    let a: re::math::mat::Mat4x4<re::math::mat::RealToReal<3, (), re::render::Model>> = mk();
    let b: re::math::point::Point3<re::render::World> = mk();
    let _r: re::math::point::Point3<()> = a.apply_pt(&b);
}

pub fn p597() {
    let a: re::math::mat::Mat4x4<re::math::mat::RealToReal<3, (), re::render::Model>> = mk();
    let b: re::math::point::Point3<re::render::World> = mk();
    let _r: re::math::point::Point3<re::render::World> = a.apply_pt(&b);
}

pub fn p598() {
    let a: re::math::mat::Mat4x4<re::math::mat::RealToReal<3, (), re::render::Model>> = mk();
    let b: re::math::point::Point3<re::render::World> = mk();
    let _ = a.apply_pt(&b);
}

pub fn p599() {
    let a: re::math::mat::Mat4x4<re::math::mat::RealToReal<3, (), re::render::Model>> = mk();
    let b: re::math::vec::Vec2<re::render::Model> = mk();
    let _ = a.apply(&b);
}

pub fn p600() {
    let a: re::math::mat::Mat4x4<re::math::mat::RealToReal<3, (), re::render::Model>> = mk();
    let b: re::math::vec::Vec2<()> = mk();
    let _ = a.apply(&b);
}

pub fn p601() {
    let a: re::math::mat::Mat4x4<re::math::mat::RealToReal<3, (), re::render::Model>> = mk();
    let b: re::math::vec::Vec2<re::render::World> = mk();
    let _ = a.apply(&b);
}

pub fn p602() {
    let a: re::math::mat::Mat4x4<re::math::mat::RealToReal<3, (), re::render::Model>> = mk();
    let b: re::math::vec::Vec3<re::render::Model> = mk();
    let _r: re::math::vec::Vec3<re::render::Model> = a.apply(&b);
}

pub fn p603() {
    let a: re::math::mat::Mat4x4<re::math::mat::RealToReal<3, (), re::render::Model>> = mk();
    let b: re::math::vec::Vec3<re::render::Model> = mk();
    let _r: re::math::vec::Vec3<()> = a.apply(&b);
}

pub fn p604() {
    let a: re::math::mat::Mat4x4<re::math::mat::RealToReal<3, (), re::render::Model>> = mk();
    let b: re::math::vec::Vec3<re::render::Model> = mk();
    let _r: re::math::vec::Vec3<re::render::World> = a.apply(&b);
}

pub fn p605() {
    let a: re::math::mat::Mat4x4<re::math::mat::RealToReal<3, (), re::render::Model>> = mk();
    let b: re::math::vec::Vec3<re::render::Model> = mk();
    let _ = a.apply(&b);
}

pub fn p607() {
    let a: re::math::mat::Mat4x4<re::math::mat::RealToReal<3, (), re::render::Model>> = mk();
    let b: re::math::vec::Vec3<()> = mk();
    let _r: re::math::vec::Vec3<()> = a.apply(&b);
}

pub fn p608() {
    let a: re::math::mat::Mat4x4<re::math::mat::RealToReal<3, (), re::render::Model>> = mk();
    let b: re::math::vec::Vec3<()> = mk();
    let _r: re::math::vec::Vec3<re::render::World> = a.apply(&b);
}

pub fn p610() {
    let a: re::math::mat::Mat4x4<re::math::mat::RealToReal<3, (), re::render::Model>> = mk();
    let b: re::math::vec::Vec3<re::render::World> = mk();
    let _r: re::math::vec::Vec3<re::render::Model> = a.apply(&b);
}

pub fn p611() {
    let a: re::math::mat::Mat4x4<re::math::mat::RealToReal<3, (), re::render::Model>> = mk();
    let b: re::math::vec::Vec3<re::render::World> = mk();
    let _r: re::math::vec::Vec3<()> = a.apply(&b);
}

pub fn p612() {
    let a: re::math::mat::Mat4x4<re::math::mat::RealToReal<3, (), re::render::Model>> = mk();
    let b: re::math::vec::Vec3<re::render::World> = mk();
    let _r: re::math::vec::Vec3<re::render::World> = a.apply(&b);
}

pub fn p613() {
    let a: re::math::mat::Mat4x4<re::math::mat::RealToReal<3, (), re::render::Model>> = mk();
    let b: re::math::vec::Vec3<re::render::World> = mk();
    let _ = a.apply(&b);
}

pub fn p617() {
    let a: re::math::mat::Mat4x4<re::math::mat::RealToReal<3, (), ()>> = mk();
    let b: re::math::mat::Mat4x4<re::math::mat::RealToReal<3, re::render::Model, re::render::Model>> = mk();
    let _ = a.compose(&b);
}

pub fn p618() {
    let a: re::math::mat::Mat4x4<re::math::mat::RealToReal<3, (), ()>> = mk();
    let b: re::math::mat::Mat4x4<re::math::mat::RealToReal<3, re::render::Model, re::render::Model>> = mk();
    let _ = a.then(&b);
}

pub fn p619() {
    let a: re::math::mat::Mat4x4<re::math::mat::RealToReal<3, (), ()>> = mk();
    let b: re::math::mat::Mat4x4<re::math::mat::RealToReal<3, re::render::Model, ()>> = mk();
    let _ = a.then(&b);
}

pub fn p621() {
    let a: re::math::mat::Mat4x4<re::math::mat::RealToReal<3, (), ()>> = mk();
    let b: re::math::mat::Mat4x4<re::math::mat::RealToReal<3, re::render::Model, re::render::World>> = mk();
    let _ = a.compose(&b);
}

pub fn p622() {
    let a: re::math::mat::Mat4x4<re::math::mat::RealToReal<3, (), ()>> = mk();
    let b: re::math::mat::Mat4x4<re::math::mat::RealToReal<3, re::render::Model, re::render::World>> = mk();
    let _ = a.then(&b);
}

pub fn p623() {
    let a: re::math::mat::Mat4x4<re::math::mat::RealToReal<3, (), ()>> = mk();
    let b: re::math::mat::Mat4x4<re::math::mat::RealToReal<3, (), re::render::Model>> = mk();
    let _ = a.compose(&b);
}

pub fn p627() {
    let a: re::math::mat::Mat4x4<re::math::mat::RealToReal<3, (), ()>> = mk();
    let b: re::math::mat::Mat4x4<re::math::mat::RealToReal<3, (), re::render::World>> = mk();
    let _ = a.compose(&b);
}

pub fn p629() {
    let a: re::math::mat::Mat4x4<re::math::mat::RealToReal<3, (), ()>> = mk();
    let b: re::math::mat::Mat4x4<re::math::mat::RealToReal<3, re::render::World, re::render::Model>> = mk();
    let _ = a.compose(&b);
}

pub fn p630() {
    let a: re::math::mat::Mat4x4<re::math::mat::RealToReal<3, (), ()>> = mk();
    let b: re::math::mat::Mat4x4<re::math::mat::RealToReal<3, re::render::World, re::render::Model>> = mk();
    let _ = a.then(&b);
}

pub fn p631() {
    let a: re::math::mat::Mat4x4<re::math::mat::RealToReal<3, (), ()>> = mk();
    let b: re::math::mat::Mat4x4<re::math::mat::RealToReal<3, re::render::World, ()>> = mk();
    let _ = a.then(&b);
}

pub fn p633() {
    let a: re::math::mat::Mat4x4<re::math::mat::RealToReal<3, (), ()>> = mk();
    let b: re::math::mat::Mat4x4<re::math::mat::RealToReal<3, re::render::World, re::render::World>> = mk();
    let _ = a.compose(&b);
}

pub fn p634() {
    let a: re::math::mat::Mat4x4<re::math::mat::RealToReal<3, (), ()>> = mk();
    let b: re::math::mat::Mat4x4<re::math::mat::RealToReal<3, re::render::World, re::render::World>> = mk();
    let _ = a.then(&b);
}

pub fn p635() {
    let a: re::math::mat::Mat4x4<re::math::mat::RealToReal<3, (), ()>> = mk();
    let b: re::math::mat::Mat4x4<re::math::mat::RealToProj<re::render::Model>> = mk();
    let _ = a.compose(&b);
}

pub fn p636() {
    let a: re::math::mat::Mat4x4<re::math::mat::RealToReal<3, (), ()>> = mk();
    let b: re::math::mat::Mat4x4<re::math::mat::RealToProj<re::render::Model>> = mk();
    let _ = a.then(&b);
}

pub fn p637() {
    let a: re::math::mat::Mat4x4<re::math::mat::RealToReal<3, (), ()>> = mk();
    let b: re::math::mat::Mat4x4<re::math::mat::RealToProj<()>> = mk();
    let _ = a.compose(&b);
}

pub fn p639() {
    let a: re::math::mat::Mat4x4<re::math::mat::RealToReal<3, (), ()>> = mk();
    let b: re::math::mat::Mat4x4<re::math::mat::RealToProj<re::render::World>> = mk();
    let _ = a.compose(&b);
}

pub fn p640() {
    let a: re::math::mat::Mat4x4<re::math::mat::RealToReal<3, (), ()>> = mk();
    let b: re::math::mat::Mat4x4<re::math::mat::RealToProj<re::render::World>> = mk();
    let _ = a.then(&b);
}

pub fn p641() {
    let a: re::math::mat::Mat4x4<re::math::mat::RealToReal<3, (), ()>> = mk();
    let b: re::math::point::Point2<re::render::Model> = mk();
    let _ = a.apply_pt(&b);
}

pub fn p642() {
    let a: re::math::mat::Mat4x4<re::math::mat::RealToReal<3, (), ()>> = mk();
    let b: re::math::point::Point2<()> = mk();
    let _ = a.apply_pt(&b);
}

pub fn p643() {
    let a: re::math::mat::Mat4x4<re::math::mat::RealToReal<3, (), ()>> = mk();
    let b: re::math::point::Point2<re::render::World> = mk();
    let _ = a.apply_pt(&b);
}

pub fn p644() {
    let a: re::math::mat::Mat4x4<re::math::mat::RealToReal<3, (), ()>> = mk();
    let b: re::math::point::Point3<re::render::Model> = mk();
    let _r: re::math::point::Point3<re::render::Model> = a.apply_pt(&b);
}

pub fn p645() {
    let a: re::math::mat::Mat4x4<re::math::mat::RealToReal<3, (), ()>> = mk();
    let b: re::math::point::Point3<re::render::Model> = mk();
    let _r: re::math::point::Point3<()> = a.apply_pt(&b);
}

pub fn p646() {
    let a: re::math::mat::Mat4x4<re::math::mat::RealToReal<3, (), ()>> = mk();
    let b: re::math::point::Point3<re::render::Model> = mk();
    let _r: re::math::point::Point3<re::render::World> = a.apply_pt(&b);
}

pub fn p647() {
    let a: re::math::mat::Mat4x4<re::math::mat::RealToReal<3, (), ()>> = mk();
    let b: re::math::point::Point3<re::render::Model> = mk();
    let _ = a.apply_pt(&b);
}

pub fn p648() {
    let a: re::math::mat::Mat4x4<re::math::mat::RealToReal<3, (), ()>> = mk();
    let b: re::math::point::Point3<()> = mk();
    let _r: re::math::point::Point3<re::render::Model> = a.apply_pt(&b);
}

pub fn p650() {
    let a: re::math::mat::Mat4x4<re::math::mat::RealToReal<3, (), ()>> = mk();
    let b: re::math::point::Point3<()> = mk();
    let _r: re::math::point::Point3<re::render::World> = a.apply_pt(&b);
}

pub fn p652() {
    let a: re::math::mat::Mat4x4<re::math::mat::RealToReal<3, (), ()>> = mk();
    let b: re::math::point::Point3<re::render::World> = mk();
    let _r: re::math::point::Point3<re::render::Model> = a.apply_pt(&b);
}

pub fn p653() {
    let a: re::math::mat::Mat4x4<re::math::mat::RealToReal<3, (), ()>> = mk();
    let b: re::math::point::Point3<re::render::World> = mk();
    let _r: re::math::point::Point3<()> = a.apply_pt(&b);
}

pub fn p654() {
    let a: re::math::mat::Mat4x4<re::math::mat::RealToReal<3, (), ()>> = mk();
    let b: re::math::point::Point3<re::render::World> = mk();
    let _r: re::math::point::Point3<re::render::World> = a.apply_pt(&b);
}

pub fn p655() {
    let a: re::math::mat::Mat4x4<re::math::mat::RealToReal<3, (), ()>> = mk();
    let b: re::math::point::Point3<re::render::World> = mk();
    let _ = a.apply_pt(&b);
}

pub fn p656() {
    let a: re::math::mat::Mat4x4<re::math::mat::RealToReal<3, (), ()>> = mk();
    let b: re::math::vec::Vec2<re::render::Model> = mk();
    let _ = a.apply(&b);
}

pub fn p657() {
    let a: re::math::mat::Mat4x4<re::math::mat::RealToReal<3, (), ()>> = mk();
    let b: re::math::vec::Vec2<()> = mk();
    let _ = a.apply(&b);
}

pub fn p658() {
    let a: re::math::mat::Mat4x4<re::math::mat::RealToReal<3, (), ()>> = mk();
    let b: re::math::vec::Vec2<re::render::World> = mk();
    let _ = a.apply(&b);
}

pub fn p659() {
    let a: re::math::mat::Mat4x4<re::math::mat::RealToReal<3, (), ()>> = mk();
    let b: re::math::vec::Vec3<re::render::Model> = mk();
    let _r: re::math::vec::Vec3<re::render::Model> = a.apply(&b);
}

pub fn p660() {
    let a: re::math::mat::Mat4x4<re::math::mat::RealToReal<3, (), ()>> = mk();
    let b: re::math::vec::Vec3<re::render::Model> = mk();
    let _r: re::math::vec::Vec3<()> = a.apply(&b);
}

pub fn p661() {
    let a: re::math::mat::Mat4x4<re::math::mat::RealToReal<3, (), ()>> = mk();
    let b: re::math::vec::Vec3<re::render::Model> = mk();
    let _r: re::math::vec::Vec3<re::render::World> = a.apply(&b);
}

pub fn p662() {
    let a: re::math::mat::Mat4x4<re::math::mat::RealToReal<3, (), ()>> = mk();
    let b: re::math::vec::Vec3<re::render::Model> = mk();
    let _ = a.apply(&b);
}

pub fn p663() {
    let a: re::math::mat::Mat4x4<re::math::mat::RealToReal<3, (), ()>> = mk();
    let b: re::math::vec::Vec3<()> = mk();
    let _r: re::math::vec::Vec3<re::render::Model> = a.apply(&b);
}

pub fn p665() {
    let a: re::math::mat::Mat4x4<re::math::mat::RealToReal<3, (), ()>> = mk();
    let b: re::math::vec::Vec3<()> = mk();
    let _r: re::math::vec::Vec3<re::render::World> = a.apply(&b);
}

pub fn p667() {
    let a: re::math::mat::Mat4x4<re::math::mat::RealToReal<3, (), ()>> = mk();
    let b: re::math::vec::Vec3<re::render::World> = mk();
    let _r: re::math::vec::Vec3<re::render::Model> = a.apply(&b);
}

pub fn p668() {
    let a: re::math::mat::Mat4x4<re::math::mat::RealToReal<3, (), ()>> = mk();
    let b: re::math::vec::Vec3<re::render::World> = mk();
    let _r: re::math::vec::Vec3<()> = a.apply(&b);
}

pub fn p669() {
    let a: re::math::mat::Mat4x4<re::math::mat::RealToReal<3, (), ()>> = mk();
    let b: re::math::vec::Vec3<re::render::World> = mk();
    let _r: re::math::vec::Vec3<re::render::World> = a.apply(&b);
}

pub fn p670() {
    let a: re::math::mat::Mat4x4<re::math::mat::RealToReal<3, (), ()>> = mk();
    let b: re::math::vec::Vec3<re::render::World> = mk();
    let _ = a.apply(&b);
}

pub fn p674() {
    let a: re::math::mat::Mat4x4<re::math::mat::RealToReal<3, (), re::render::World>> = mk();
    let b: re::math::mat::Mat4x4<re::math::mat::RealToReal<3, re::render::Model, re::render::Model>> = mk();
    let _ = a.compose(&b);
}

pub fn p675() {
    let a: re::math::mat::Mat4x4<re::math::mat::RealToReal<3, (), re::render::World>> = mk();
    let b: re::math::mat::Mat4x4<re::math::mat::RealToReal<3, re::render::Model, re::render::Model>> = mk();
    let _ = a.then(&b);
}

pub fn p676() {
    let a: re::math::mat::Mat4x4<re::math::mat::RealToReal<3, (), re::render::World>> = mk();
    let b: re::math::mat::Mat4x4<re::math::mat::RealToReal<3, re::render::Model, ()>> = mk();
    let _ = a.then(&b);
}

pub fn p678() {
    let a: re::math::mat::Mat4x4<re::math::mat::RealToReal<3, (), re::render::World>> = mk();
    let b: re::math::mat::Mat4x4<re::math::mat::RealToReal<3, re::render::Model, re::render::World>> = mk();
    let _ = a.compose(&b);
}

pub fn p679() {
    let a: re::math::mat::Mat4x4<re::math::mat::RealToReal<3, (), re::render::World>> = mk();
    let b: re::math::mat::Mat4x4<re::math::mat::RealToReal<3, re::render::Model, re::render::World>> = mk();
    let _ = a.then(&b);
}

pub fn p680() {
    let a: re::math::mat::Mat4x4<re::math::mat::RealToReal<3, (), re::render::World>> = mk();
    let b: re::math::mat::Mat4x4<re::math::mat::RealToReal<3, (), re::render::Model>> = mk();
    let _ = a.compose(&b);
}

pub fn p681() {
    let a: re::math::mat::Mat4x4<re::math::mat::RealToReal<3, (), re::render::World>> = mk();
    let b: re::math::mat::Mat4x4<re::math::mat::RealToReal<3, (), re::render::Model>> = mk();
    let _ = a.then(&b);
}

pub fn p682() {
    let a: re::math::mat::Mat4x4<re::math::mat::RealToReal<3, (), re::render::World>> = mk();
    let b: re::math::mat::Mat4x4<re::math::mat::RealToReal<3, (), ()>> = mk();
    let _ = a.then(&b);
}

pub fn p684() {
    let a: re::math::mat::Mat4x4<re::math::mat::RealToReal<3, (), re::render::World>> = mk();
    let b: re::math::mat::Mat4x4<re::math::mat::RealToReal<3, (), re::render::World>> = mk();
    let _ = a.compose(&b);
}

pub fn p685() {
    let a: re::math::mat::Mat4x4<re::math::mat::RealToReal<3, (), re::render::World>> = mk();
    let b: re::math::mat::Mat4x4<re::math::mat::RealToReal<3, (), re::render::World>> = mk();
    let _ = a.then(&b);
}

pub fn p686() {
    let a: re::math::mat::Mat4x4<re::math::mat::RealToReal<3, (), re::render::World>> = mk();
    let b: re::math::mat::Mat4x4<re::math::mat::RealToReal<3, re::render::World, re::render::Model>> = mk();
    let _ = a.compose(&b);
}

pub fn p690() {
    let a: re::math::mat::Mat4x4<re::math::mat::RealToReal<3, (), re::render::World>> = mk();
    let b: re::math::mat::Mat4x4<re::math::mat::RealToReal<3, re::render::World, re::render::World>> = mk();
    let _ = a.compose(&b);
}

pub fn p692() {
    let a: re::math::mat::Mat4x4<re::math::mat::RealToReal<3, (), re::render::World>> = mk();
    let b: re::math::mat::Mat4x4<re::math::mat::RealToProj<re::render::Model>> = mk();
    let _ = a.compose(&b);
}

pub fn p693() {
    let a: re::math::mat::Mat4x4<re::math::mat::RealToReal<3, (), re::render::World>> = mk();
    let b: re::math::mat::Mat4x4<re::math::mat::RealToProj<re::render::Model>> = mk();
    let _ = a.then(&b);
}

pub fn p694() {
    let a: re::math::mat::Mat4x4<re::math::mat::RealToReal<3, (), re::render::World>> = mk();
    let b: re::math::mat::Mat4x4<re::math::mat::RealToProj<()>> = mk();
    let _ = a.compose(&b);
}

pub fn p695() {
    let a: re::math::mat::Mat4x4<re::math::mat::RealToReal<3, (), re::render::World>> = mk();
    let b: re::math::mat::Mat4x4<re::math::mat::RealToProj<()>> = mk();
    let _ = a.then(&b);
}

pub fn p696() {
    let a: re::math::mat::Mat4x4<re::math::mat::RealToReal<3, (), re::render::World>> = mk();
    let b: re::math::mat::Mat4x4<re::math::mat::RealToProj<re::render::World>> = mk();
    let _ = a.compose(&b);
}

pub fn p698() {
    let a: re::math::mat::Mat4x4<re::math::mat::RealToReal<3, (), re::render::World>> = mk();
    let b: re::math::point::Point2<re::render::Model> = mk();
    let _ = a.apply_pt(&b);
}

pub fn p699() {
    let a: re::math::mat::Mat4x4<re::math::mat::RealToReal<3, (), re::render::World>> = mk();
    let b: re::math::point::Point2<()> = mk();
    let _ = a.apply_pt(&b);
}

pub fn p700() {
    let a: re::math::mat::Mat4x4<re::math::mat::RealToReal<3, (), re::render::World>> = mk();
    let b: re::math::point::Point2<re::render::World> = mk();
    let _ = a.apply_pt(&b);
}

pub fn p701() {
    let a: re::math::mat::Mat4x4<re::math::mat::RealToReal<3, (), re::render::World>> = mk();
    let b: re::math::point::Point3<re::render::Model> = mk();
    let _r: re::math::point::Point3<re::render::Model> = a.apply_pt(&b);
}

pub fn p702() {
    let a: re::math::mat::Mat4x4<re::math::mat::RealToReal<3, (), re::render::World>> = mk();
    let b: re::math::point::Point3<re::render::Model> = mk();
    let _r: re::math::point::Point3<()> = a.apply_pt(&b);
}

pub fn p703() {
    let a: re::math::mat::Mat4x4<re::math::mat::RealToReal<3, (), re::render::World>> = mk();
    let b: re::math::point::Point3<re::render::Model> = mk();
    let _r: re::math::point::Point3<re::render::World> = a.apply_pt(&b);
}

pub fn p704() {
    let a: re::math::mat::Mat4x4<re::math::mat::RealToReal<3, (), re::render::World>> = mk();
    let b: re::math::point::Point3<re::render::Model> = mk();
    let _ = a.apply_pt(&b);
}

pub fn p705() {
    let a: re::math::mat::Mat4x4<re::math::mat::RealToReal<3, (), re::render::World>> = mk();
    let b: re::math::point::Point3<()> = mk();
    let _r: re::math::point::Point3<re::render::Model> = a.apply_pt(&b);
}

pub fn p706() {
    let a: re::math::mat::Mat4x4<re::math::mat::RealToReal<3, (), re::render::World>> = mk();
    let b: re::math::point::Point3<()> = mk();
    let _r: re::math::point::Point3<()> = a.apply_pt(&b);
}

pub fn p709() {
    let a: re::math::mat::Mat4x4<re::math::mat::RealToReal<3, (), re::render::World>> = mk();
    let b: re::math::point::Point3<re::render::World> = mk();
    let _r: re::math::point::Point3<re::render::Model> = a.apply_pt(&b);
}

pub fn p710() {
    let a: re::math::mat::Mat4x4<re::math::mat::RealToReal<3, (), re::render::World>> = mk();
    let b: re::math::point::Point3<re::render::World> = mk();
    let _r: re::math::point::Point3<()> = a.apply_pt(&b);
}

pub fn p711() {
    let a: re::math::mat::Mat4x4<re::math::mat::RealToReal<3, (), re::render::World>> = mk();
    let b: re::math::point::Point3<re::render::World> = mk();
    let _r: re::math::point::Point3<re::render::World> = a.apply_pt(&b);
}

pub fn p712() {
    let a: re::math::mat::Mat4x4<re::math::mat::RealToReal<3, (), re::render::World>> = mk();
    let b: re::math::point::Point3<re::render::World> = mk();
    let _ = a.apply_pt(&b);
}

pub fn p713() {
    let a: re::math::mat::Mat4x4<re::math::mat::RealToReal<3, (), re::render::World>> = mk();
    let b: re::math::vec::Vec2<re::render::Model> = mk();
    let _ = a.apply(&b);
}

pub fn p714() {
    let a: re::math::mat::Mat4x4<re::math::mat::RealToReal<3, (), re::render::World>> = mk();
    let b: re::math::vec::Vec2<()> = mk();
    let _ = a.apply(&b);
}

pub fn p715() {
    let a: re::math::mat::Mat4x4<re::math::mat::RealToReal<3, (), re::render::World>> = mk();
    let b: re::math::vec::Vec2<re::render::World> = mk();
    let _ = a.apply(&b);
}

pub fn p716() {
    let a: re::math::mat::Mat4x4<re::math::mat::RealToReal<3, (), re::render::World>> = mk();
    let b: re::math::vec::Vec3<re::render::Model> = mk();
    let _r: re::math::vec::Vec3<re::render::Model> = a.apply(&b);
}

pub fn p717() {
    let a: re::math::mat::Mat4x4<re::math::mat::RealToReal<3, (), re::render::World>> = mk();
    let b: re::math::vec::Vec3<re::render::Model> = mk();
    let _r: re::math::vec::Vec3<()> = a.apply(&b);
}

pub fn p718() {
    let a: re::math::mat::Mat4x4<re::math::mat::RealToReal<3, (), re::render::World>> = mk();
    let b: re::math::vec::Vec3<re::render::Model> = mk();
    let _r: re::math::vec::Vec3<re::render::World> = a.apply(&b);
}

pub fn p719() {
    let a: re::math::mat::Mat4x4<re::math::mat::RealToReal<3, (), re::render::World>> = mk();
    let b: re::math::vec::Vec3<re::render::Model> = mk();
    let _ = a.apply(&b);
}

pub fn p720() {
    let a: re::math::mat::Mat4x4<re::math::mat::RealToReal<3, (), re::render::World>> = mk();
    let b: re::math::vec::Vec3<()> = mk();
    let _r: re::math::vec::Vec3<re::render::Model> = a.apply(&b);
}

pub fn p721() {
    let a: re::math::mat::Mat4x4<re::math::mat::RealToReal<3, (), re::render::World>> = mk();
    let b: re::math::vec::Vec3<()> = mk();
    let _r: re::math::vec::Vec3<()> = a.apply(&b);
}

pub fn p724() {
    let a: re::math::mat::Mat4x4<re::math::mat::RealToReal<3, (), re::render::World>> = mk();
    let b: re::math::vec::Vec3<re::render::World> = mk();
    let _r: re::math::vec::Vec3<re::render::Model> = a.apply(&b);
}

pub fn p725() {
    let a: re::math::mat::Mat4x4<re::math::mat::RealToReal<3, (), re::render::World>> = mk();
    let b: re::math::vec::Vec3<re::render::World> = mk();
    let _r: re::math::vec::Vec3<()> = a.apply(&b);
}

pub fn p726() {
    let a: re::math::mat::Mat4x4<re::math::mat::RealToReal<3, (), re::render::World>> = mk();
    let b: re::math::vec::Vec3<re::render::World> = mk();
    let _r: re::math::vec::Vec3<re::render::World> = a.apply(&b);
}

pub fn p727() {
    let a: re::math::mat::Mat4x4<re::math::mat::RealToReal<3, (), re::render::World>> = mk();
    let b: re::math::vec::Vec3<re::render::World> = mk();
    let _ = a.apply(&b);
}

pub fn p733() {
    let a: re::math::mat::Mat4x4<re::math::mat::RealToReal<3, crate::UserTag, crate::UserTag>> = mk();
    let b: re::math::mat::Mat4x4<re::math::mat::RealToReal<3, crate::UserTag, re::render::World>> = mk();
    let _ = a.compose(&b);
}

pub fn p735() {
    let a: re::math::mat::Mat4x4<re::math::mat::RealToReal<3, crate::UserTag, crate::UserTag>> = mk();
    let b: re::math::mat::Mat4x4<re::math::mat::RealToReal<3, re::render::World, crate::UserTag>> = mk();
    let _ = a.then(&b);
}

pub fn p738() {
    let a: re::math::mat::Mat4x4<re::math::mat::RealToReal<3, crate::UserTag, crate::UserTag>> = mk();
    let b: re::math::point::Point3<re::render::World> = mk();
    let _ = a.apply_pt(&b);
}

pub fn p740() {
    let a: re::math::mat::Mat4x4<re::math::mat::RealToReal<3, crate::UserTag, crate::UserTag>> = mk();
    let b: re::math::vec::Vec3<re::render::World> = mk();
    let _ = a.apply(&b);
}

pub fn p744() {
    let a: re::math::mat::Mat4x4<re::math::mat::RealToReal<3, crate::UserTag, re::render::World>> = mk();
    let b: re::math::mat::Mat4x4<re::math::mat::RealToReal<3, crate::UserTag, crate::UserTag>> = mk();
    let _ = a.then(&b);
}

pub fn p746() {
    let a: re::math::mat::Mat4x4<re::math::mat::RealToReal<3, crate::UserTag, re::render::World>> = mk();
    let b: re::math::mat::Mat4x4<re::math::mat::RealToReal<3, crate::UserTag, re::render::World>> = mk();
    let _ = a.compose(&b);
}

pub fn p747() {
    let a: re::math::mat::Mat4x4<re::math::mat::RealToReal<3, crate::UserTag, re::render::World>> = mk();
    let b: re::math::mat::Mat4x4<re::math::mat::RealToReal<3, crate::UserTag, re::render::World>> = mk();
    let _ = a.then(&b);
}

pub fn p751() {
    let a: re::math::mat::Mat4x4<re::math::mat::RealToReal<3, crate::UserTag, re::render::World>> = mk();
    let b: re::math::point::Point3<re::render::World> = mk();
    let _ = a.apply_pt(&b);
}

pub fn p753() {
    let a: re::math::mat::Mat4x4<re::math::mat::RealToReal<3, crate::UserTag, re::render::World>> = mk();
    let b: re::math::vec::Vec3<re::render::World> = mk();
    let _ = a.apply(&b);
}

pub fn p760() {
    let a: re::math::mat::Mat4x4<re::math::mat::RealToReal<3, re::render::View, re::render::Model>> = mk();
    let b: re::math::mat::Mat4x4<re::render::ViewToProj> = mk();
    let _ = a.then(&b);
}

pub fn p761() {
    let a: re::math::mat::Mat4x4<re::math::mat::RealToReal<3, re::render::View, re::render::Model>> = mk();
    let b: re::math::mat::Mat4x4<re::render::WorldToView> = mk();
    let _ = a.then(&b);
}

pub fn p762() {
    let a: re::math::mat::Mat4x4<re::math::mat::RealToReal<3, re::render::View, re::render::Model>> = mk();
    let b: re::math::point::Point3<re::render::Model> = mk();
    let _ = a.apply(&b);
}

pub fn p763() {
    let a: re::math::mat::Mat4x4<re::math::mat::RealToReal<3, re::render::View, re::render::Model>> = mk();
    let b: re::math::point::Point3<re::render::Model> = mk();
    let _ = a.apply_pt(&b);
}

pub fn p764() {
    let a: re::math::mat::Mat4x4<re::math::mat::RealToReal<3, re::render::View, re::render::Model>> = mk();
    let b: re::math::point::Point3<re::render::View> = mk();
    let _ = a.apply(&b);
}

pub fn p766() {
    let a: re::math::mat::Mat4x4<re::math::mat::RealToReal<3, re::render::View, re::render::Model>> = mk();
    let b: re::math::point::Point3<re::render::World> = mk();
    let _ = a.apply(&b);
}

pub fn p767() {
    let a: re::math::mat::Mat4x4<re::math::mat::RealToReal<3, re::render::View, re::render::Model>> = mk();
    let b: re::math::point::Point3<re::render::World> = mk();
    let _ = a.apply_pt(&b);
}

pub fn p768() {
    let a: re::math::mat::Mat4x4<re::math::mat::RealToReal<3, re::render::View, re::render::Model>> = mk();
    let _ = re::render::cam::Camera::new((8, 8)).mode(a);
}

pub fn p770() {
    let a: re::math::mat::Mat4x4<re::math::mat::RealToReal<3, re::render::View, re::render::View>> = mk();
    let b: re::math::mat::Mat4x4<re::render::ModelToProj> = mk();
    let _ = a.then(&b);
}

pub fn p771() {
    let a: re::math::mat::Mat4x4<re::math::mat::RealToReal<3, re::render::View, re::render::View>> = mk();
    let b: re::math::mat::Mat4x4<re::render::ModelToView> = mk();
    let _ = a.then(&b);
}

pub fn p772() {
    let a: re::math::mat::Mat4x4<re::math::mat::RealToReal<3, re::render::View, re::render::View>> = mk();
    let b: re::math::mat::Mat4x4<re::render::ModelToWorld> = mk();
    let _ = a.then(&b);
}

pub fn p774() {
    let a: re::math::mat::Mat4x4<re::math::mat::RealToReal<3, re::render::View, re::render::View>> = mk();
    let b: re::math::mat::Mat4x4<re::render::WorldToView> = mk();
    let _ = a.then(&b);
}

pub fn p775() {
    let a: re::math::mat::Mat4x4<re::math::mat::RealToReal<3, re::render::View, re::render::View>> = mk();
    let b: re::math::point::Point3<re::render::Model> = mk();
    let _ = a.apply(&b);
}

pub fn p776() {
    let a: re::math::mat::Mat4x4<re::math::mat::RealToReal<3, re::render::View, re::render::View>> = mk();
    let b: re::math::point::Point3<re::render::Model> = mk();
    let _ = a.apply_pt(&b);
}

pub fn p777() {
    let a: re::math::mat::Mat4x4<re::math::mat::RealToReal<3, re::render::View, re::render::View>> = mk();
    let b: re::math::point::Point3<re::render::View> = mk();
    let _ = a.apply(&b);
}

pub fn p779() {
    let a: re::math::mat::Mat4x4<re::math::mat::RealToReal<3, re::render::View, re::render::View>> = mk();
    let b: re::math::point::Point3<re::render::World> = mk();
    let _ = a.apply(&b);
}

pub fn p780() {
    let a: re::math::mat::Mat4x4<re::math::mat::RealToReal<3, re::render::View, re::render::View>> = mk();
    let b: re::math::point::Point3<re::render::World> = mk();
    let _ = a.apply_pt(&b);
}

pub fn p781() {
    let a: re::math::mat::Mat4x4<re::math::mat::RealToReal<3, re::render::View, re::render::View>> = mk();
    let _ = re::render::cam::Camera::new((8, 8)).mode(a);
}

pub fn p783() {
    let a: re::math::mat::Mat4x4<re::math::mat::RealToReal<3, re::render::View, re::render::World>> = mk();
    let b: re::math::mat::Mat4x4<re::render::ModelToProj> = mk();
    let _ = a.then(&b);
}

pub fn p784() {
    let a: re::math::mat::Mat4x4<re::math::mat::RealToReal<3, re::render::View, re::render::World>> = mk();
    let b: re::math::mat::Mat4x4<re::render::ModelToView> = mk();
    let _ = a.then(&b);
}

pub fn p785() {
    let a: re::math::mat::Mat4x4<re::math::mat::RealToReal<3, re::render::View, re::render::World>> = mk();
    let b: re::math::mat::Mat4x4<re::render::ModelToWorld> = mk();
    let _ = a.then(&b);
}

pub fn p786() {
    let a: re::math::mat::Mat4x4<re::math::mat::RealToReal<3, re::render::View, re::render::World>> = mk();
    let b: re::math::mat::Mat4x4<re::render::ViewToProj> = mk();
    let _ = a.then(&b);
}

pub fn p788() {
    let a: re::math::mat::Mat4x4<re::math::mat::RealToReal<3, re::render::View, re::render::World>> = mk();
    let b: re::math::point::Point3<re::render::Model> = mk();
    let _ = a.apply(&b);
}

pub fn p789() {
    let a: re::math::mat::Mat4x4<re::math::mat::RealToReal<3, re::render::View, re::render::World>> = mk();
    let b: re::math::point::Point3<re::render::Model> = mk();
    let _ = a.apply_pt(&b);
}

pub fn p790() {
    let a: re::math::mat::Mat4x4<re::math::mat::RealToReal<3, re::render::View, re::render::World>> = mk();
    let b: re::math::point::Point3<re::render::View> = mk();
    let _ = a.apply(&b);
}

pub fn p792() {
    let a: re::math::mat::Mat4x4<re::math::mat::RealToReal<3, re::render::View, re::render::World>> = mk();
    let b: re::math::point::Point3<re::render::World> = mk();
    let _ = a.apply(&b);
}

pub fn p793() {
    let a: re::math::mat::Mat4x4<re::math::mat::RealToReal<3, re::render::View, re::render::World>> = mk();
    let b: re::math::point::Point3<re::render::World> = mk();
    let _ = a.apply_pt(&b);
}

pub fn p794() {
    let a: re::math::mat::Mat4x4<re::math::mat::RealToReal<3, re::render::View, re::render::World>> = mk();
    let _ = re::render::cam::Camera::new((8, 8)).mode(a);
}

pub fn p799() {
    let a: re::math::mat::Mat4x4<re::math::mat::RealToReal<3, re::render::World, re::render::Model>> = mk();
    let b: re::math::mat::Mat4x4<re::render::ViewToProj> = mk();
    let _ = a.then(&b);
}

pub fn p800() {
    let a: re::math::mat::Mat4x4<re::math::mat::RealToReal<3, re::render::World, re::render::Model>> = mk();
    let b: re::math::mat::Mat4x4<re::render::WorldToView> = mk();
    let _ = a.then(&b);
}

pub fn p801() {
    let a: re::math::mat::Mat4x4<re::math::mat::RealToReal<3, re::render::World, re::render::Model>> = mk();
    let b: re::math::mat::Mat4x4<re::math::mat::RealToReal<3, re::render::Model, re::render::Model>> = mk();
    let _r: re::math::mat::Mat4x4<re::math::mat::RealToReal<3, re::render::Model, re::render::Model>> = a.compose(&b);
}

pub fn p802() {
    let a: re::math::mat::Mat4x4<re::math::mat::RealToReal<3, re::render::World, re::render::Model>> = mk();
    let b: re::math::mat::Mat4x4<re::math::mat::RealToReal<3, re::render::Model, re::render::Model>> = mk();
    let _r: re::math::mat::Mat4x4<re::math::mat::RealToReal<3, re::render::Model, re::render::World>> = a.compose(&b);
}

pub fn p803() {
    let a: re::math::mat::Mat4x4<re::math::mat::RealToReal<3, re::render::World, re::render::Model>> = mk();
    let b: re::math::mat::Mat4x4<re::math::mat::RealToReal<3, re::render::Model, re::render::Model>> = mk();
    let _r: re::math::mat::Mat4x4<re::math::mat::RealToReal<3, re::render::World, re::render::Model>> = a.compose(&b);
}

pub fn p804() {
    let a: re::math::mat::Mat4x4<re::math::mat::RealToReal<3, re::render::World, re::render::Model>> = mk();
    let b: re::math::mat::Mat4x4<re::math::mat::RealToReal<3, re::render::Model, re::render::Model>> = mk();
    let _r: re::math::mat::Mat4x4<re::math::mat::RealToReal<3, re::render::World, re::render::World>> = a.compose(&b);
}

pub fn p805() {
    let a: re::math::mat::Mat4x4<re::math::mat::RealToReal<3, re::render::World, re::render::Model>> = mk();
    let b: re::math::mat::Mat4x4<re::math::mat::RealToReal<3, re::render::Model, re::render::Model>> = mk();
    let _ = a.compose(&b);
}

pub fn p807() {
    let a: re::math::mat::Mat4x4<re::math::mat::RealToReal<3, re::render::World, re::render::Model>> = mk();
    let b: re::math::mat::Mat4x4<re::math::mat::RealToReal<3, re::render::Model, ()>> = mk();
    let _ = a.compose(&b);
}

pub fn p810() {
    let a: re::math::mat::Mat4x4<re::math::mat::RealToReal<3, re::render::World, re::render::Model>> = mk();
    let b: re::math::mat::Mat4x4<re::math::mat::RealToReal<3, re::render::Model, re::render::World>> = mk();
    let _r: re::math::mat::Mat4x4<re::math::mat::RealToReal<3, re::render::Model, re::render::World>> = a.compose(&b);
}

pub fn p811() {
    let a: re::math::mat::Mat4x4<re::math::mat::RealToReal<3, re::render::World, re::render::Model>> = mk();
    let b: re::math::mat::Mat4x4<re::math::mat::RealToReal<3, re::render::Model, re::render::World>> = mk();
    let _r: re::math::mat::Mat4x4<re::math::mat::RealToReal<3, re::render::World, re::render::Model>> = a.compose(&b);
}

pub fn p812() {
    let a: re::math::mat::Mat4x4<re::math::mat::RealToReal<3, re::render::World, re::render::Model>> = mk();
    let b: re::math::mat::Mat4x4<re::math::mat::RealToReal<3, re::render::Model, re::render::World>> = mk();
    let _r: re::math::mat::Mat4x4<re::math::mat::RealToReal<3, re::render::World, re::render::World>> = a.compose(&b);
}

pub fn p815() {
    let a: re::math::mat::Mat4x4<re::math::mat::RealToReal<3, re::render::World, re::render::Model>> = mk();
    let b: re::math::mat::Mat4x4<re::math::mat::RealToReal<3, (), re::render::Model>> = mk();
    let _ = a.compose(&b);
}

pub fn p816() {
    let a: re::math::mat::Mat4x4<re::math::mat::RealToReal<3, re::render::World, re::render::Model>> = mk();
    let b: re::math::mat::Mat4x4<re::math::mat::RealToReal<3, (), re::render::Model>> = mk();
    let _ = a.then(&b);
}

pub fn p817() {
    let a: re::math::mat::Mat4x4<re::math::mat::RealToReal<3, re::render::World, re::render::Model>> = mk();
    let b: re::math::mat::Mat4x4<re::math::mat::RealToReal<3, (), ()>> = mk();
    let _ = a.compose(&b);
}

pub fn p818() {
    let a: re::math::mat::Mat4x4<re::math::mat::RealToReal<3, re::render::World, re::render::Model>> = mk();
    let b: re::math::mat::Mat4x4<re::math::mat::RealToReal<3, (), ()>> = mk();
    let _ = a.then(&b);
}

pub fn p819() {
    let a: re::math::mat::Mat4x4<re::math::mat::RealToReal<3, re::render::World, re::render::Model>> = mk();
    let b: re::math::mat::Mat4x4<re::math::mat::RealToReal<3, (), re::render::World>> = mk();
    let _ = a.then(&b);
}

pub fn p821() {
    let a: re::math::mat::Mat4x4<re::math::mat::RealToReal<3, re::render::World, re::render::Model>> = mk();
    let b: re::math::mat::Mat4x4<re::math::mat::RealToReal<3, re::render::World, re::render::Model>> = mk();
    let _r: re::math::mat::Mat4x4<re::math::mat::RealToReal<3, re::render::Model, re::render::Model>> = a.compose(&b);
}

pub fn p822() {
    let a: re::math::mat::Mat4x4<re::math::mat::RealToReal<3, re::render::World, re::render::Model>> = mk();
    let b: re::math::mat::Mat4x4<re::math::mat::RealToReal<3, re::render::World, re::render::Model>> = mk();
    let _r: re::math::mat::Mat4x4<re::math::mat::RealToReal<3, re::render::Model, re::render::World>> = a.compose(&b);
}

pub fn p823() {
    let a: re::math::mat::Mat4x4<re::math::mat::RealToReal<3, re::render::World, re::render::Model>> = mk();
    let b: re::math::mat::Mat4x4<re::math::mat::RealToReal<3, re::render::World, re::render::Model>> = mk();
    let _r: re::math::mat::Mat4x4<re::math::mat::RealToReal<3, re::render::World, re::render::Model>> = a.compose(&b);
}

pub fn p824() {
    let a: re::math::mat::Mat4x4<re::math::mat::RealToReal<3, re::render::World, re::render::Model>> = mk();
    let b: re::math::mat::Mat4x4<re::math::mat::RealToReal<3, re::render::World, re::render::Model>> = mk();
    let _r: re::math::mat::Mat4x4<re::math::mat::RealToReal<3, re::render::World, re::render::World>> = a.compose(&b);
}

pub fn p825() {
    let a: re::math::mat::Mat4x4<re::math::mat::RealToReal<3, re::render::World, re::render::Model>> = mk();
    let b: re::math::mat::Mat4x4<re::math::mat::RealToReal<3, re::render::World, re::render::Model>> = mk();
    let _ = a.compose(&b);
}

pub fn p826() {
    let a: re::math::mat::Mat4x4<re::math::mat::RealToReal<3, re::render::World, re::render::Model>> = mk();
    let b: re::math::mat::Mat4x4<re::math::mat::RealToReal<3, re::render::World, re::render::Model>> = mk();
    let _ = a.then(&b);
}

pub fn p827() {
    let a: re::math::mat::Mat4x4<re::math::mat::RealToReal<3, re::render::World, re::render::Model>> = mk();
    let b: re::math::mat::Mat4x4<re::math::mat::RealToReal<3, re::render::World, ()>> = mk();
    let _ = a.compose(&b);
}

pub fn p828() {
    let a: re::math::mat::Mat4x4<re::math::mat::RealToReal<3, re::render::World, re::render::Model>> = mk();
    let b: re::math::mat::Mat4x4<re::math::mat::RealToReal<3, re::render::World, ()>> = mk();
    let _ = a.then(&b);
}

pub fn p829() {
    let a: re::math::mat::Mat4x4<re::math::mat::RealToReal<3, re::render::World, re::render::Model>> = mk();
    let b: re::math::mat::Mat4x4<re::math::mat::RealToReal<3, re::render::World, re::render::World>> = mk();
    let _r: re::math::mat::Mat4x4<re::math::mat::RealToReal<3, re::render::Model, re::render::Model>> = a.compose(&b);
}

pub fn p830() {
    let a: re::math::mat::Mat4x4<re::math::mat::RealToReal<3, re::render::World, re::render::Model>> = mk();
    let b: re::math::mat::Mat4x4<re::math::mat::RealToReal<3, re::render::World, re::render::World>> = mk();
    let _r: re::math::mat::Mat4x4<re::math::mat::RealToReal<3, re::render::Model, re::render::World>> = a.compose(&b);
}

pub fn p832() {
    let a: re::math::mat::Mat4x4<re::math::mat::RealToReal<3, re::render::World, re::render::Model>> = mk();
    let b: re::math::mat::Mat4x4<re::math::mat::RealToReal<3, re::render::World, re::render::World>> = mk();
    let _r: re::math::mat::Mat4x4<re::math::mat::RealToReal<3, re::render::World, re::render::World>> = a.compose(&b);
}

pub fn p833() {
    let a: re::math::mat::Mat4x4<re::math::mat::RealToReal<3, re::render::World, re::render::Model>> = mk();
    let b: re::math::mat::Mat4x4<re::math::mat::RealToReal<3, re::render::World, re::render::World>> = mk();
    let _ = a.then(&b);
}

pub fn p835() {
    let a: re::math::mat::Mat4x4<re::math::mat::RealToReal<3, re::render::World, re::render::Model>> = mk();
    let b: re::math::mat::Mat4x4<re::math::mat::RealToProj<re::render::Model>> = mk();
    let _ = a.compose(&b);
}

pub fn p837() {
    let a: re::math::mat::Mat4x4<re::math::mat::RealToReal<3, re::render::World, re::render::Model>> = mk();
    let b: re::math::mat::Mat4x4<re::math::mat::RealToProj<()>> = mk();
    let _ = a.compose(&b);
}

pub fn p838() {
    let a: re::math::mat::Mat4x4<re::math::mat::RealToReal<3, re::render::World, re::render::Model>> = mk();
    let b: re::math::mat::Mat4x4<re::math::mat::RealToProj<()>> = mk();
    let _ = a.then(&b);
}

pub fn p839() {
    let a: re::math::mat::Mat4x4<re::math::mat::RealToReal<3, re::render::World, re::render::Model>> = mk();
    let b: re::math::mat::Mat4x4<re::math::mat::RealToProj<re::render::World>> = mk();
    let _ = a.compose(&b);
}

pub fn p840() {
    let a: re::math::mat::Mat4x4<re::math::mat::RealToReal<3, re::render::World, re::render::Model>> = mk();
    let b: re::math::mat::Mat4x4<re::math::mat::RealToProj<re::render::World>> = mk();
    let _ = a.then(&b);
}

pub fn p841() {
    let a: re::math::mat::Mat4x4<re::math::mat::RealToReal<3, re::render::World, re::render::Model>> = mk();
    let b: re::math::point::Point2<re::render::Model> = mk();
    let _ = a.apply_pt(&b);
}

pub fn p842() {
    let a: re::math::mat::Mat4x4<re::math::mat::RealToReal<3, re::render::World, re::render::Model>> = mk();
    let b: re::math::point::Point2<()> = mk();
    let _ = a.apply_pt(&b);
}

pub fn p843() {
    let a: re::math::mat::Mat4x4<re::math::mat::RealToReal<3, re::render::World, re::render::Model>> = mk();
    let b: re::math::point::Point2<re::render::World> = mk();
    let _ = a.apply_pt(&b);
}

pub fn p844() {
    let a: re::math::mat::Mat4x4<re::math::mat::RealToReal<3, re::render::World, re::render::Model>> = mk();
    let b: re::math::point::Point3<re::render::Model> = mk();
    let _r: re::math::point::Point3<re::render::Model> = a.apply_pt(&b);
}

pub fn p845() {
    let a: re::math::mat::Mat4x4<re::math::mat::RealToReal<3, re::render::World, re::render::Model>> = mk();
    let b: re::math::point::Point3<re::render::Model> = mk();
    let _r: re::math::point::Point3<()> = a.apply_pt(&b);
}

pub fn p846() {
    let a: re::math::mat::Mat4x4<re::math::mat::RealToReal<3, re::render::World, re::render::Model>> = mk();
    let b: re::math::point::Point3<re::render::Model> = mk();
    let _r: re::math::point::Point3<re::render::World> = a.apply_pt(&b);
}

pub fn p847() {
    let a: re::math::mat::Mat4x4<re::math::mat::RealToReal<3, re::render::World, re::render::Model>> = mk();
    let b: re::math::point::Point3<re::render::Model> = mk();
    let _ = a.apply(&b);
}

pub fn p848() {
    let a: re::math::mat::Mat4x4<re::math::mat::RealToReal<3, re::render::World, re::render::Model>> = mk();
    let b: re::math::point::Point3<re::render::Model> = mk();
    let _ = a.apply_pt(&b);
}

pub fn p849() {
    let a: re::math::mat::Mat4x4<re::math::mat::RealToReal<3, re::render::World, re::render::Model>> = mk();
    let b: re::math::point::Point3<()> = mk();
    let _r: re::math::point::Point3<re::render::Model> = a.apply_pt(&b);
}

pub fn p850() {
    let a: re::math::mat::Mat4x4<re::math::mat::RealToReal<3, re::render::World, re::render::Model>> = mk();
    let b: re::math::point::Point3<()> = mk();
    let _r: re::math::point::Point3<()> = a.apply_pt(&b);
}

pub fn p851() {
    let a: re::math::mat::Mat4x4<re::math::mat::RealToReal<3, re::render::World, re::render::Model>> = mk();
    let b: re::math::point::Point3<()> = mk();
    let _r: re::math::point::Point3<re::render::World> = a.apply_pt(&b);
}

pub fn p852() {
    let a: re::math::mat::Mat4x4<re::math::mat::RealToReal<3, re::render::World, re::render::Model>> = mk();
    let b: re::math::point::Point3<()> = mk();
    let _ = a.apply_pt(&b);
}

pub fn p853() {
    let a: re::math::mat::Mat4x4<re::math::mat::RealToReal<3, re::render::World, re::render::Model>> = mk();
    let b: re::math::point::Point3<re::render::View> = mk();
    let _ = a.apply(&b);
}

pub fn p854() {
    let a: re::math::mat::Mat4x4<re::math::mat::RealToReal<3, re::render::World, re::render::Model>> = mk();
    let b: re::math::point::Point3<re::render::View> = mk();
    let _ = a.apply_pt(&b);
}

pub fn p856() {
    let a: re::math::mat::Mat4x4<re::math::mat::RealToReal<3, re::render::World, re::render::Model>> = mk();
    let b: re::math::point::Point3<re::render::World> = mk();
    let _r: re::math::point::Point3<()> = a.apply_pt(&b);
}

pub fn p857() {
    let a: re::math::mat::Mat4x4<re::math::mat::RealToReal<3, re::render::World, re::render::Model>> = mk();
    let b: re::math::point::Point3<re::render::World> = mk();
    let _r: re::math::point::Point3<re::render::World> = a.apply_pt(&b);
}

pub fn p858() {
    let a: re::math::mat::Mat4x4<re::math::mat::RealToReal<3, re::render::World, re::render::Model>> = mk();
    let b: re::math::point::Point3<re::render::World> = mk();
    let _ = a.apply(&b);
}

pub fn p860() {
    let a: re::math::mat::Mat4x4<re::math::mat::RealToReal<3, re::render::World, re::render::Model>> = mk();
    let b: re::math::vec::Vec2<re::render::Model> = mk();
    let _ = a.apply(&b);
}

pub fn p861() {
    let a: re::math::mat::Mat4x4<re::math::mat::RealToReal<3, re::render::World, re::render::Model>> = mk();
    let b: re::math::vec::Vec2<()> = mk();
    let _ = a.apply(&b);
}

pub fn p862() {
    let a: re::math::mat::Mat4x4<re::math::mat::RealToReal<3, re::render::World, re::render::Model>> = mk();
    let b: re::math::vec::Vec2<re::render::World> = mk();
    let _ = a.apply(&b);
}

pub fn p863() {
    let a: re::math::mat::Mat4x4<re::math::mat::RealToReal<3, re::render::World, re::render::Model>> = mk();
    let b: re::math::vec::Vec3<re::render::Model> = mk();
    let _r: re::math::vec::Vec3<re::render::Model> = a.apply(&b);
}

pub fn p864() {
    let a: re::math::mat::Mat4x4<re::math::mat::RealToReal<3, re::render::World, re::render::Model>> = mk();
    let b: re::math::vec::Vec3<re::render::Model> = mk();
    let _r: re::math::vec::Vec3<()> = a.apply(&b);
}

pub fn p865() {
    let a: re::math::mat::Mat4x4<re::math::mat::RealToReal<3, re::render::World, re::render::Model>> = mk();
    let b: re::math::vec::Vec3<re::render::Model> = mk();
    let _r: re::math::vec::Vec3<re::render::World> = a.apply(&b);
}

pub fn p866() {
    let a: re::math::mat::Mat4x4<re::math::mat::RealToReal<3, re::render::World, re::render::Model>> = mk();
    let b: re::math::vec::Vec3<re::render::Model> = mk();
    let _ = a.apply(&b);
}

pub fn p867() {
    let a: re::math::mat::Mat4x4<re::math::mat::RealToReal<3, re::render::World, re::render::Model>> = mk();
    let b: re::math::vec::Vec3<()> = mk();
    let _r: re::math::vec::Vec3<re::render::Model> = a.apply(&b);
}

pub fn p868() {
    let a: re::math::mat::Mat4x4<re::math::mat::RealToReal<3, re::render::World, re::render::Model>> = mk();
    let b: re::math::vec::Vec3<()> = mk();
    let _r: re::math::vec::Vec3<()> = a.apply(&b);
}

pub fn p869() {
    let a: re::math::mat::Mat4x4<re::math::mat::RealToReal<3, re::render::World, re::render::Model>> = mk();
    let b: re::math::vec::Vec3<()> = mk();
    let _r: re::math::vec::Vec3<re::render::World> = a.apply(&b);
}

pub fn p870() {
    let a: re::math::mat::Mat4x4<re::math::mat::RealToReal<3, re::render::World, re::render::Model>> = mk();
    let b: re::math::vec::Vec3<()> = mk();
    let _ = a.apply(&b);
}

pub fn p872() {
    let a: re::math::mat::Mat4x4<re::math::mat::RealToReal<3, re::render::World, re::render::Model>> = mk();
    let b: re::math::vec::Vec3<re::render::World> = mk();
    let _r: re::math::vec::Vec3<()> = a.apply(&b);
}

pub fn p873() {
    let a: re::math::mat::Mat4x4<re::math::mat::RealToReal<3, re::render::World, re::render::Model>> = mk();
    let b: re::math::vec::Vec3<re::render::World> = mk();
    let _r: re::math::vec::Vec3<re::render::World> = a.apply(&b);
}

pub fn p875() {
    let a: re::math::mat::Mat4x4<re::math::mat::RealToReal<3, re::render::World, re::render::Model>> = mk();
    let _ = re::render::cam::Camera::new((8, 8)).mode(a);
}

pub fn p880() {
    let a: re::math::mat::Mat4x4<re::math::mat::RealToReal<3, re::render::World, ()>> = mk();
    let b: re::math::mat::Mat4x4<re::math::mat::RealToReal<3, re::render::Model, re::render::Model>> = mk();
    let _ = a.compose(&b);
}

pub fn p881() {
    let a: re::math::mat::Mat4x4<re::math::mat::RealToReal<3, re::render::World, ()>> = mk();
    let b: re::math::mat::Mat4x4<re::math::mat::RealToReal<3, re::render::Model, re::render::Model>> = mk();
    let _ = a.then(&b);
}

pub fn p882() {
    let a: re::math::mat::Mat4x4<re::math::mat::RealToReal<3, re::render::World, ()>> = mk();
    let b: re::math::mat::Mat4x4<re::math::mat::RealToReal<3, re::render::Model, ()>> = mk();
    let _ = a.compose(&b);
}

pub fn p883() {
    let a: re::math::mat::Mat4x4<re::math::mat::RealToReal<3, re::render::World, ()>> = mk();
    let b: re::math::mat::Mat4x4<re::math::mat::RealToReal<3, re::render::Model, ()>> = mk();
    let _ = a.then(&b);
}

pub fn p884() {
    let a: re::math::mat::Mat4x4<re::math::mat::RealToReal<3, re::render::World, ()>> = mk();
    let b: re::math::mat::Mat4x4<re::math::mat::RealToReal<3, re::render::Model, re::render::World>> = mk();
    let _ = a.then(&b);
}

pub fn p886() {
    let a: re::math::mat::Mat4x4<re::math::mat::RealToReal<3, re::render::World, ()>> = mk();
    let b: re::math::mat::Mat4x4<re::math::mat::RealToReal<3, (), re::render::Model>> = mk();
    let _ = a.compose(&b);
}

pub fn p888() {
    let a: re::math::mat::Mat4x4<re::math::mat::RealToReal<3, re::render::World, ()>> = mk();
    let b: re::math::mat::Mat4x4<re::math::mat::RealToReal<3, (), ()>> = mk();
    let _ = a.compose(&b);
}

pub fn p892() {
    let a: re::math::mat::Mat4x4<re::math::mat::RealToReal<3, re::render::World, ()>> = mk();
    let b: re::math::mat::Mat4x4<re::math::mat::RealToReal<3, re::render::World, re::render::Model>> = mk();
    let _ = a.compose(&b);
}

pub fn p893() {
    let a: re::math::mat::Mat4x4<re::math::mat::RealToReal<3, re::render::World, ()>> = mk();
    let b: re::math::mat::Mat4x4<re::math::mat::RealToReal<3, re::render::World, re::render::Model>> = mk();
    let _ = a.then(&b);
}

pub fn p894() {
    let a: re::math::mat::Mat4x4<re::math::mat::RealToReal<3, re::render::World, ()>> = mk();
    let b: re::math::mat::Mat4x4<re::math::mat::RealToReal<3, re::render::World, ()>> = mk();
    let _ = a.compose(&b);
}

pub fn p895() {
    let a: re::math::mat::Mat4x4<re::math::mat::RealToReal<3, re::render::World, ()>> = mk();
    let b: re::math::mat::Mat4x4<re::math::mat::RealToReal<3, re::render::World, ()>> = mk();
    let _ = a.then(&b);
}

pub fn p896() {
    let a: re::math::mat::Mat4x4<re::math::mat::RealToReal<3, re::render::World, ()>> = mk();
    let b: re::math::mat::Mat4x4<re::math::mat::RealToReal<3, re::render::World, re::render::World>> = mk();
    let _ = a.then(&b);
}

pub fn p898() {
    let a: re::math::mat::Mat4x4<re::math::mat::RealToReal<3, re::render::World, ()>> = mk();
    let b: re::math::mat::Mat4x4<re::math::mat::RealToProj<re::render::Model>> = mk();
    let _ = a.compose(&b);
}

pub fn p899() {
    let a: re::math::mat::Mat4x4<re::math::mat::RealToReal<3, re::render::World, ()>> = mk();
    let b: re::math::mat::Mat4x4<re::math::mat::RealToProj<re::render::Model>> = mk();
    let _ = a.then(&b);
}

pub fn p900() {
    let a: re::math::mat::Mat4x4<re::math::mat::RealToReal<3, re::render::World, ()>> = mk();
    let b: re::math::mat::Mat4x4<re::math::mat::RealToProj<()>> = mk();
    let _ = a.compose(&b);
}

pub fn p902() {
    let a: re::math::mat::Mat4x4<re::math::mat::RealToReal<3, re::render::World, ()>> = mk();
    let b: re::math::mat::Mat4x4<re::math::mat::RealToProj<re::render::World>> = mk();
    let _ = a.compose(&b);
}

pub fn p903() {
    let a: re::math::mat::Mat4x4<re::math::mat::RealToReal<3, re::render::World, ()>> = mk();
    let b: re::math::mat::Mat4x4<re::math::mat::RealToProj<re::render::World>> = mk();
    let _ = a.then(&b);
}

pub fn p904() {
    let a: re::math::mat::Mat4x4<re::math::mat::RealToReal<3, re::render::World, ()>> = mk();
    let b: re::math::point::Point2<re::render::Model> = mk();
    let _ = a.apply_pt(&b);
}

pub fn p905() {
    let a: re::math::mat::Mat4x4<re::math::mat::RealToReal<3, re::render::World, ()>> = mk();
    let b: re::math::point::Point2<()> = mk();
    let _ = a.apply_pt(&b);
}

pub fn p906() {
    let a: re::math::mat::Mat4x4<re::math::mat::RealToReal<3, re::render::World, ()>> = mk();
    let b: re::math::point::Point2<re::render::World> = mk();
    let _ = a.apply_pt(&b);
}

pub fn p907() {
    let a: re::math::mat::Mat4x4<re::math::mat::RealToReal<3, re::render::World, ()>> = mk();
    let b: re::math::point::Point3<re::render::Model> = mk();
    let _r: re::math::point::Point3<re::render::Model> = a.apply_pt(&b);
}

pub fn p908() {
    let a: re::math::mat::Mat4x4<re::math::mat::RealToReal<3, re::render::World, ()>> = mk();
    let b: re::math::point::Point3<re::render::Model> = mk();
    let _r: re::math::point::Point3<()> = a.apply_pt(&b);
}

pub fn p909() {
    let a: re::math::mat::Mat4x4<re::math::mat::RealToReal<3, re::render::World, ()>> = mk();
    let b: re::math::point::Point3<re::render::Model> = mk();
    let _r: re::math::point::Point3<re::render::World> = a.apply_pt(&b);
}

pub fn p910() {
    let a: re::math::mat::Mat4x4<re::math::mat::RealToReal<3, re::render::World, ()>> = mk();
    let b: re::math::point::Point3<re::render::Model> = mk();
    let _ = a.apply_pt(&b);
}

pub fn p911() {
    let a: re::math::mat::Mat4x4<re::math::mat::RealToReal<3, re::render::World, ()>> = mk();
    let b: re::math::point::Point3<()> = mk();
    let _r: re::math::point::Point3<re::render::Model> = a.apply_pt(&b);
}

pub fn p912() {
    let a: re::math::mat::Mat4x4<re::math::mat::RealToReal<3, re::render::World, ()>> = mk();
    let b: re::math::point::Point3<()> = mk();
    let _r: re::math::point::Point3<()> = a.apply_pt(&b);
}

pub fn p913() {
    let a: re::math::mat::Mat4x4<re::math::mat::RealToReal<3, re::render::World, ()>> = mk();
    let b: re::math::point::Point3<()> = mk();
    let _r: re::math::point::Point3<re::render::World> = a.apply_pt(&b);
}

pub fn p914() {
    let a: re::math::mat::Mat4x4<re::math::mat::RealToReal<3, re::render::World, ()>> = mk();
    let b: re::math::point::Point3<()> = mk();
    let _ = a.apply_pt(&b);
}

pub fn p915() {
    let a: re::math::mat::Mat4x4<re::math::mat::RealToReal<3, re::render::World, ()>> = mk();
    let b: re::math::point::Point3<re::render::World> = mk();
    let _r: re::math::point::Point3<re::render::Model> = a.apply_pt(&b);
}

pub fn p917() {
    let a: re::math::mat::Mat4x4<re::math::mat::RealToReal<3, re::render::World, ()>> = mk();
    let b: re::math::point::Point3<re::render::World> = mk();
    let _r: re::math::point::Point3<re::render::World> = a.apply_pt(&b);
}

pub fn p919() {
    let a: re::math::mat::Mat4x4<re::math::mat::RealToReal<3, re::render::World, ()>> = mk();
    let b: re::math::vec::Vec2<re::render::Model> = mk();
    let _ = a.apply(&b);
}

pub fn p920() {
    let a: re::math::mat::Mat4x4<re::math::mat::RealToReal<3, re::render::World, ()>> = mk();
    let b: re::math::vec::Vec2<()> = mk();
    let _ = a.apply(&b);
}

pub fn p921() {
    let a: re::math::mat::Mat4x4<re::math::mat::RealToReal<3, re::render::World, ()>> = mk();
    let b: re::math::vec::Vec2<re::render::World> = mk();
    let _ = a.apply(&b);
}

pub fn p922() {
    let a: re::math::mat::Mat4x4<re::math::mat::RealToReal<3, re::render::World, ()>> = mk();
    let b: re::math::vec::Vec3<re::render::Model> = mk();
    let _r: re::math::vec::Vec3<re::render::Model> = a.apply(&b);
}

pub fn p923() {
    let a: re::math::mat::Mat4x4<re::math::mat::RealToReal<3, re::render::World, ()>> = mk();
    let b: re::math::vec::Vec3<re::render::Model> = mk();
    let _r: re::math::vec::Vec3<()> = a.apply(&b);
}

pub fn p924() {
    let a: re::math::mat::Mat4x4<re::math::mat::RealToReal<3, re::render::World, ()>> = mk();
    let b: re::math::vec::Vec3<re::render::Model> = mk();
    let _r: re::math::vec::Vec3<re::render::World> = a.apply(&b);
}

pub fn p925() {
    let a: re::math::mat::Mat4x4<re::math::mat::RealToReal<3, re::render::World, ()>> = mk();
    let b: re::math::vec::Vec3<re::render::Model> = mk();
    let _ = a.apply(&b);
}

pub fn p926() {
    let a: re::math::mat::Mat4x4<re::math::mat::RealToReal<3, re::render::World, ()>> = mk();
    let b: re::math::vec::Vec3<()> = mk();
    let _r: re::math::vec::Vec3<re::render::Model> = a.apply(&b);
}

pub fn p927() {
    let a: re::math::mat::Mat4x4<re::math::mat::RealToReal<3, re::render::World, ()>> = mk();
    let b: re::math::vec::Vec3<()> = mk();
    let _r: re::math::vec::Vec3<()> = a.apply(&b);
}

pub fn p928() {
    let a: re::math::mat::Mat4x4<re::math::mat::RealToReal<3, re::render::World, ()>> = mk();
    let b: re::math::vec::Vec3<()> = mk();
    let _r: re::math::vec::Vec3<re::render::World> = a.apply(&b);
}

pub fn p929() {
    let a: re::math::mat::Mat4x4<re::math::mat::RealToReal<3, re::render::World, ()>> = mk();
    let b: re::math::vec::Vec3<()> = mk();
    let _ = a.apply(&b);
}

pub fn p930() {
    let a: re::math::mat::Mat4x4<re::math::mat::RealToReal<3, re::render::World, ()>> = mk();
    let b: re::math::vec::Vec3<re::render::World> = mk();
    let _r: re::math::vec::Vec3<re::render::Model> = a.apply(&b);
}

pub fn p932() {
    let a: re::math::mat::Mat4x4<re::math::mat::RealToReal<3, re::render::World, ()>> = mk();
    let b: re::math::vec::Vec3<re::render::World> = mk();
    let _r: re::math::vec::Vec3<re::render::World> = a.apply(&b);
}

pub fn p937() {
    let a: re::math::mat::Mat4x4<re::math::mat::RealToReal<3, re::render::World, crate::UserTag>> = mk();
    let b: re::math::mat::Mat4x4<re::math::mat::RealToReal<3, crate::UserTag, crate::UserTag>> = mk();
    let _ = a.compose(&b);
}

pub fn p941() {
    let a: re::math::mat::Mat4x4<re::math::mat::RealToReal<3, re::render::World, crate::UserTag>> = mk();
    let b: re::math::mat::Mat4x4<re::math::mat::RealToReal<3, re::render::World, crate::UserTag>> = mk();
    let _ = a.compose(&b);
}

pub fn p942() {
    let a: re::math::mat::Mat4x4<re::math::mat::RealToReal<3, re::render::World, crate::UserTag>> = mk();
    let b: re::math::mat::Mat4x4<re::math::mat::RealToReal<3, re::render::World, crate::UserTag>> = mk();
    let _ = a.then(&b);
}

pub fn p943() {
    let a: re::math::mat::Mat4x4<re::math::mat::RealToReal<3, re::render::World, crate::UserTag>> = mk();
    let b: re::math::point::Point3<crate::UserTag> = mk();
    let _ = a.apply_pt(&b);
}

pub fn p945() {
    let a: re::math::mat::Mat4x4<re::math::mat::RealToReal<3, re::render::World, crate::UserTag>> = mk();
    let b: re::math::vec::Vec3<crate::UserTag> = mk();
    let _ = a.apply(&b);
}

pub fn p950() {
    let a: re::math::mat::Mat4x4<re::math::mat::RealToReal<3, re::render::World, re::render::View>> = mk();
    let b: re::math::mat::Mat4x4<re::render::ModelToProj> = mk();
    let _ = a.then(&b);
}

pub fn p951() {
    let a: re::math::mat::Mat4x4<re::math::mat::RealToReal<3, re::render::World, re::render::View>> = mk();
    let b: re::math::mat::Mat4x4<re::render::ModelToView> = mk();
    let _ = a.then(&b);
}

pub fn p952() {
    let a: re::math::mat::Mat4x4<re::math::mat::RealToReal<3, re::render::World, re::render::View>> = mk();
    let b: re::math::mat::Mat4x4<re::render::ModelToWorld> = mk();
    let _ = a.then(&b);
}

pub fn p954() {
    let a: re::math::mat::Mat4x4<re::math::mat::RealToReal<3, re::render::World, re::render::View>> = mk();
    let b: re::math::mat::Mat4x4<re::render::WorldToView> = mk();
    let _ = a.then(&b);
}

pub fn p955() {
    let a: re::math::mat::Mat4x4<re::math::mat::RealToReal<3, re::render::World, re::render::View>> = mk();
    let b: re::math::point::Point3<re::render::Model> = mk();
    let _ = a.apply(&b);
}

pub fn p956() {
    let a: re::math::mat::Mat4x4<re::math::mat::RealToReal<3, re::render::World, re::render::View>> = mk();
    let b: re::math::point::Point3<re::render::Model> = mk();
    let _ = a.apply_pt(&b);
}

pub fn p957() {
    let a: re::math::mat::Mat4x4<re::math::mat::RealToReal<3, re::render::World, re::render::View>> = mk();
    let b: re::math::point::Point3<re::render::View> = mk();
    let _ = a.apply(&b);
}

pub fn p958() {
    let a: re::math::mat::Mat4x4<re::math::mat::RealToReal<3, re::render::World, re::render::View>> = mk();
    let b: re::math::point::Point3<re::render::View> = mk();
    let _ = a.apply_pt(&b);
}

pub fn p959() {
    let a: re::math::mat::Mat4x4<re::math::mat::RealToReal<3, re::render::World, re::render::View>> = mk();
    let b: re::math::point::Point3<re::render::World> = mk();
    let _ = a.apply(&b);
}

pub fn p963() {
    let a: re::math::mat::Mat4x4<re::math::mat::RealToReal<3, re::render::World, re::render::World>> = mk();
    let b: re::math::mat::Mat4x4<re::render::ModelToProj> = mk();
    let _ = a.then(&b);
}

pub fn p964() {
    let a: re::math::mat::Mat4x4<re::math::mat::RealToReal<3, re::render::World, re::render::World>> = mk();
    let b: re::math::mat::Mat4x4<re::render::ModelToView> = mk();
    let _ = a.then(&b);
}

pub fn p965() {
    let a: re::math::mat::Mat4x4<re::math::mat::RealToReal<3, re::render::World, re::render::World>> = mk();
    let b: re::math::mat::Mat4x4<re::render::ModelToWorld> = mk();
    let _ = a.then(&b);
}

pub fn p966() {
    let a: re::math::mat::Mat4x4<re::math::mat::RealToReal<3, re::render::World, re::render::World>> = mk();
    let b: re::math::mat::Mat4x4<re::render::ViewToProj> = mk();
    let _ = a.then(&b);
}

pub fn p968() {
    let a: re::math::mat::Mat4x4<re::math::mat::RealToReal<3, re::render::World, re::render::World>> = mk();
    let b: re::math::mat::Mat4x4<re::math::mat::RealToReal<3, re::render::Model, re::render::Model>> = mk();
    let _r: re::math::mat::Mat4x4<re::math::mat::RealToReal<3, re::render::Model, re::render::Model>> = a.compose(&b);
}

pub fn p969() {
    let a: re::math::mat::Mat4x4<re::math::mat::RealToReal<3, re::render::World, re::render::World>> = mk();
    let b: re::math::mat::Mat4x4<re::math::mat::RealToReal<3, re::render::Model, re::render::Model>> = mk();
    let _r: re::math::mat::Mat4x4<re::math::mat::RealToReal<3, re::render::Model, re::render::World>> = a.compose(&b);
}

pub fn p970() {
    let a: re::math::mat::Mat4x4<re::math::mat::RealToReal<3, re::render::World, re::render::World>> = mk();
    let b: re::math::mat::Mat4x4<re::math::mat::RealToReal<3, re::render::Model, re::render::Model>> = mk();
    let _r: re::math::mat::Mat4x4<re::math::mat::RealToReal<3, re::render::World, re::render::Model>> = a.compose(&b);
}

pub fn p971() {
    let a: re::math::mat::Mat4x4<re::math::mat::RealToReal<3, re::render::World, re::render::World>> = mk();
    let b: re::math::mat::Mat4x4<re::math::mat::RealToReal<3, re::render::Model, re::render::Model>> = mk();
    let _r: re::math::mat::Mat4x4<re::math::mat::RealToReal<3, re::render::World, re::render::World>> = a.compose(&b);
}

pub fn p972() {
    let a: re::math::mat::Mat4x4<re::math::mat::RealToReal<3, re::render::World, re::render::World>> = mk();
    let b: re::math::mat::Mat4x4<re::math::mat::RealToReal<3, re::render::Model, re::render::Model>> = mk();
    let _ = a.compose(&b);
}

pub fn p973() {
    let a: re::math::mat::Mat4x4<re::math::mat::RealToReal<3, re::render::World, re::render::World>> = mk();
    let b: re::math::mat::Mat4x4<re::math::mat::RealToReal<3, re::render::Model, re::render::Model>> = mk();
    let _ = a.then(&b);
}

pub fn p974() {
    let a: re::math::mat::Mat4x4<re::math::mat::RealToReal<3, re::render::World, re::render::World>> = mk();
    let b: re::math::mat::Mat4x4<re::math::mat::RealToReal<3, re::render::Model, ()>> = mk();
    let _ = a.compose(&b);
}

pub fn p975() {
    let a: re::math::mat::Mat4x4<re::math::mat::RealToReal<3, re::render::World, re::render::World>> = mk();
    let b: re::math::mat::Mat4x4<re::math::mat::RealToReal<3, re::render::Model, ()>> = mk();
    let _ = a.then(&b);
}

pub fn p976() {
    let a: re::math::mat::Mat4x4<re::math::mat::RealToReal<3, re::render::World, re::render::World>> = mk();
    let b: re::math::mat::Mat4x4<re::math::mat::RealToReal<3, re::render::Model, re::render::World>> = mk();
    let _r: re::math::mat::Mat4x4<re::math::mat::RealToReal<3, re::render::Model, re::render::Model>> = a.compose(&b);
}

pub fn p978() {
    let a: re::math::mat::Mat4x4<re::math::mat::RealToReal<3, re::render::World, re::render::World>> = mk();
    let b: re::math::mat::Mat4x4<re::math::mat::RealToReal<3, re::render::Model, re::render::World>> = mk();
    let _r: re::math::mat::Mat4x4<re::math::mat::RealToReal<3, re::render::World, re::render::Model>> = a.compose(&b);
}

pub fn p979() {
    let a: re::math::mat::Mat4x4<re::math::mat::RealToReal<3, re::render::World, re::render::World>> = mk();
    let b: re::math::mat::Mat4x4<re::math::mat::RealToReal<3, re::render::Model, re::render::World>> = mk();
    let _r: re::math::mat::Mat4x4<re::math::mat::RealToReal<3, re::render::World, re::render::World>> = a.compose(&b);
}

pub fn p980() {
    let a: re::math::mat::Mat4x4<re::math::mat::RealToReal<3, re::render::World, re::render::World>> = mk();
    let b: re::math::mat::Mat4x4<re::math::mat::RealToReal<3, re::render::Model, re::render::World>> = mk();
    let _ = a.then(&b);
}

pub fn p982() {
    let a: re::math::mat::Mat4x4<re::math::mat::RealToReal<3, re::render::World, re::render::World>> = mk();
    let b: re::math::mat::Mat4x4<re::math::mat::RealToReal<3, (), re::render::Model>> = mk();
    let _ = a.compose(&b);
}

pub fn p983() {
    let a: re::math::mat::Mat4x4<re::math::mat::RealToReal<3, re::render::World, re::render::World>> = mk();
    let b: re::math::mat::Mat4x4<re::math::mat::RealToReal<3, (), re::render::Model>> = mk();
    let _ = a.then(&b);
}

pub fn p984() {
    let a: re::math::mat::Mat4x4<re::math::mat::RealToReal<3, re::render::World, re::render::World>> = mk();
    let b: re::math::mat::Mat4x4<re::math::mat::RealToReal<3, (), ()>> = mk();
    let _ = a.compose(&b);
}

pub fn p985() {
    let a: re::math::mat::Mat4x4<re::math::mat::RealToReal<3, re::render::World, re::render::World>> = mk();
    let b: re::math::mat::Mat4x4<re::math::mat::RealToReal<3, (), ()>> = mk();
    let _ = a.then(&b);
}

pub fn p986() {
    let a: re::math::mat::Mat4x4<re::math::mat::RealToReal<3, re::render::World, re::render::World>> = mk();
    let b: re::math::mat::Mat4x4<re::math::mat::RealToReal<3, (), re::render::World>> = mk();
    let _ = a.then(&b);
}

pub fn p988() {
    let a: re::math::mat::Mat4x4<re::math::mat::RealToReal<3, re::render::World, re::render::World>> = mk();
    let b: re::math::mat::Mat4x4<re::math::mat::RealToReal<3, re::render::World, re::render::Model>> = mk();
    let _r: re::math::mat::Mat4x4<re::math::mat::RealToReal<3, re::render::Model, re::render::Model>> = a.compose(&b);
}

pub fn p989() {
    let a: re::math::mat::Mat4x4<re::math::mat::RealToReal<3, re::render::World, re::render::World>> = mk();
    let b: re::math::mat::Mat4x4<re::math::mat::RealToReal<3, re::render::World, re::render::Model>> = mk();
    let _r: re::math::mat::Mat4x4<re::math::mat::RealToReal<3, re::render::Model, re::render::World>> = a.compose(&b);
}

pub fn p990() {
    let a: re::math::mat::Mat4x4<re::math::mat::RealToReal<3, re::render::World, re::render::World>> = mk();
    let b: re::math::mat::Mat4x4<re::math::mat::RealToReal<3, re::render::World, re::render::Model>> = mk();
    let _r: re::math::mat::Mat4x4<re::math::mat::RealToReal<3, re::render::World, re::render::Model>> = a.compose(&b);
}

pub fn p991() {
    let a: re::math::mat::Mat4x4<re::math::mat::RealToReal<3, re::render::World, re::render::World>> = mk();
    let b: re::math::mat::Mat4x4<re::math::mat::RealToReal<3, re::render::World, re::render::Model>> = mk();
    let _r: re::math::mat::Mat4x4<re::math::mat::RealToReal<3, re::render::World, re::render::World>> = a.compose(&b);
}

pub fn p992() {
    let a: re::math::mat::Mat4x4<re::math::mat::RealToReal<3, re::render::World, re::render::World>> = mk();
    let b: re::math::mat::Mat4x4<re::math::mat::RealToReal<3, re::render::World, re::render::Model>> = mk();
    let _ = a.compose(&b);
}

pub fn p994() {
    let a: re::math::mat::Mat4x4<re::math::mat::RealToReal<3, re::render::World, re::render::World>> = mk();
    let b: re::math::mat::Mat4x4<re::math::mat::RealToReal<3, re::render::World, ()>> = mk();
    let _ = a.compose(&b);
}

pub fn p996() {
    let a: re::math::mat::Mat4x4<re::math::mat::RealToReal<3, re::render::World, re::render::World>> = mk();
    let b: re::math::mat::Mat4x4<re::math::mat::RealToReal<3, re::render::World, re::render::World>> = mk();
    let _r: re::math::mat::Mat4x4<re::math::mat::RealToReal<3, re::render::Model, re::render::Model>> = a.compose(&b);
}

pub fn p997() {
    let a: re::math::mat::Mat4x4<re::math::mat::RealToReal<3, re::render::World, re::render::World>> = mk();
    let b: re::math::mat::Mat4x4<re::math::mat::RealToReal<3, re::render::World, re::render::World>> = mk();
    let _r: re::math::mat::Mat4x4<re::math::mat::RealToReal<3, re::render::Model, re::render::World>> = a.compose(&b);
}

pub fn p998() {
    let a: re::math::mat::Mat4x4<re::math::mat::RealToReal<3, re::render::World, re::render::World>> = mk();
    let b: re::math::mat::Mat4x4<re::math::mat::RealToReal<3, re::render::World, re::render::World>> = mk();
    let _r: re::math::mat::Mat4x4<re::math::mat::RealToReal<3, re::render::World, re::render::Model>> = a.compose(&b);
}

pub fn p1002() {
    let a: re::math::mat::Mat4x4<re::math::mat::RealToReal<3, re::render::World, re::render::World>> = mk();
    let b: re::math::mat::Mat4x4<re::math::mat::RealToProj<re::render::Model>> = mk();
    let _ = a.compose(&b);
}

pub fn p1003() {
    let a: re::math::mat::Mat4x4<re::math::mat::RealToReal<3, re::render::World, re::render::World>> = mk();
    let b: re::math::mat::Mat4x4<re::math::mat::RealToProj<re::render::Model>> = mk();
    let _ = a.then(&b);
}

pub fn p1004() {
    let a: re::math::mat::Mat4x4<re::math::mat::RealToReal<3, re::render::World, re::render::World>> = mk();
    let b: re::math::mat::Mat4x4<re::math::mat::RealToProj<()>> = mk();
    let _ = a.compose(&b);
}

pub fn p1005() {
    let a: re::math::mat::Mat4x4<re::math::mat::RealToReal<3, re::render::World, re::render::World>> = mk();
    let b: re::math::mat::Mat4x4<re::math::mat::RealToProj<()>> = mk();
    let _ = a.then(&b);
}

pub fn p1006() {
    let a: re::math::mat::Mat4x4<re::math::mat::RealToReal<3, re::render::World, re::render::World>> = mk();
    let b: re::math::mat::Mat4x4<re::math::mat::RealToProj<re::render::World>> = mk();
    let _ = a.compose(&b);
}

pub fn p1008() {
    let a: re::math::mat::Mat4x4<re::math::mat::RealToReal<3, re::render::World, re::render::World>> = mk();
    let b: re::math::point::Point2<re::render::Model> = mk();
    let _ = a.apply_pt(&b);
}

pub fn p1009() {
    let a: re::math::mat::Mat4x4<re::math::mat::RealToReal<3, re::render::World, re::render::World>> = mk();
    let b: re::math::point::Point2<()> = mk();
    let _ = a.apply_pt(&b);
}

pub fn p1010() {
    let a: re::math::mat::Mat4x4<re::math::mat::RealToReal<3, re::render::World, re::render::World>> = mk();
    let b: re::math::point::Point2<re::render::World> = mk();
    let _ = a.apply_pt(&b);
}

pub fn p1011() {
    let a: re::math::mat::Mat4x4<re::math::mat::RealToReal<3, re::render::World, re::render::World>> = mk();
    let b: re::math::point::Point3<re::render::Model> = mk();
    let _r: re::math::point::Point3<re::render::Model> = a.apply_pt(&b);
}

pub fn p1012() {
    let a: re::math::mat::Mat4x4<re::math::mat::RealToReal<3, re::render::World, re::render::World>> = mk();
    let b: re::math::point::Point3<re::render::Model> = mk();
    let _r: re::math::point::Point3<()> = a.apply_pt(&b);
}

pub fn p1013() {
    let a: re::math::mat::Mat4x4<re::math::mat::RealToReal<3, re::render::World, re::render::World>> = mk();
    let b: re::math::point::Point3<re::render::Model> = mk();
    let _r: re::math::point::Point3<re::render::World> = a.apply_pt(&b);
}

pub fn p1014() {
    let a: re::math::mat::Mat4x4<re::math::mat::RealToReal<3, re::render::World, re::render::World>> = mk();
    let b: re::math::point::Point3<re::render::Model> = mk();
    let _ = a.apply(&b);
}

pub fn p1015() {
    let a: re::math::mat::Mat4x4<re::math::mat::RealToReal<3, re::render::World, re::render::World>> = mk();
    let b: re::math::point::Point3<re::render::Model> = mk();
    let _ = a.apply_pt(&b);
}

pub fn p1016() {
    let a: re::math::mat::Mat4x4<re::math::mat::RealToReal<3, re::render::World, re::render::World>> = mk();
    let b: re::math::point::Point3<()> = mk();
    let _r: re::math::point::Point3<re::render::Model> = a.apply_pt(&b);
}

pub fn p1017() {
    let a: re::math::mat::Mat4x4<re::math::mat::RealToReal<3, re::render::World, re::render::World>> = mk();
    let b: re::math::point::Point3<()> = mk();
    let _r: re::math::point::Point3<()> = a.apply_pt(&b);
}

pub fn p1018() {
    let a: re::math::mat::Mat4x4<re::math::mat::RealToReal<3, re::render::World, re::render::World>> = mk();
    let b: re::math::point::Point3<()> = mk();
    let _r: re::math::point::Point3<re::render::World> = a.apply_pt(&b);
}

pub fn p1019() {
    let a: re::math::mat::Mat4x4<re::math::mat::RealToReal<3, re::render::World, re::render::World>> = mk();
    let b: re::math::point::Point3<()> = mk();
    let _ = a.apply_pt(&b);
}

pub fn p1020() {
    let a: re::math::mat::Mat4x4<re::math::mat::RealToReal<3, re::render::World, re::render::World>> = mk();
    let b: re::math::point::Point3<re::render::View> = mk();
    let _ = a.apply(&b);
}

pub fn p1021() {
    let a: re::math::mat::Mat4x4<re::math::mat::RealToReal<3, re::render::World, re::render::World>> = mk();
    let b: re::math::point::Point3<re::render::View> = mk();
    let _ = a.apply_pt(&b);
}

pub fn p1022() {
    let a: re::math::mat::Mat4x4<re::math::mat::RealToReal<3, re::render::World, re::render::World>> = mk();
    let b: re::math::point::Point3<re::render::World> = mk();
    let _r: re::math::point::Point3<re::render::Model> = a.apply_pt(&b);
}

pub fn p1023() {
    let a: re::math::mat::Mat4x4<re::math::mat::RealToReal<3, re::render::World, re::render::World>> = mk();
    let b: re::math::point::Point3<re::render::World> = mk();
    let _r: re::math::point::Point3<()> = a.apply_pt(&b);
}

pub fn p1025() {
    let a: re::math::mat::Mat4x4<re::math::mat::RealToReal<3, re::render::World, re::render::World>> = mk();
    let b: re::math::point::Point3<re::render::World> = mk();
    let _ = a.apply(&b);
}

pub fn p1027() {
    let a: re::math::mat::Mat4x4<re::math::mat::RealToReal<3, re::render::World, re::render::World>> = mk();
    let b: re::math::vec::Vec2<re::render::Model> = mk();
    let _ = a.apply(&b);
}

pub fn p1028() {
    let a: re::math::mat::Mat4x4<re::math::mat::RealToReal<3, re::render::World, re::render::World>> = mk();
    let b: re::math::vec::Vec2<()> = mk();
    let _ = a.apply(&b);
}

pub fn p1029() {
    let a: re::math::mat::Mat4x4<re::math::mat::RealToReal<3, re::render::World, re::render::World>> = mk();
    let b: re::math::vec::Vec2<re::render::World> = mk();
    let _ = a.apply(&b);
}

pub fn p1030() {
    let a: re::math::mat::Mat4x4<re::math::mat::RealToReal<3, re::render::World, re::render::World>> = mk();
    let b: re::math::vec::Vec3<re::render::Model> = mk();
    let _r: re::math::vec::Vec3<re::render::Model> = a.apply(&b);
}

pub fn p1031() {
    let a: re::math::mat::Mat4x4<re::math::mat::RealToReal<3, re::render::World, re::render::World>> = mk();
    let b: re::math::vec::Vec3<re::render::Model> = mk();
    let _r: re::math::vec::Vec3<()> = a.apply(&b);
}

pub fn p1032() {
    let a: re::math::mat::Mat4x4<re::math::mat::RealToReal<3, re::render::World, re::render::World>> = mk();
    let b: re::math::vec::Vec3<re::render::Model> = mk();
    let _r: re::math::vec::Vec3<re::render::World> = a.apply(&b);
}

pub fn p1033() {
    let a: re::math::mat::Mat4x4<re::math::mat::RealToReal<3, re::render::World, re::render::World>> = mk();
    let b: re::math::vec::Vec3<re::render::Model> = mk();
    let _ = a.apply(&b);
}

pub fn p1034() {
    let a: re::math::mat::Mat4x4<re::math::mat::RealToReal<3, re::render::World, re::render::World>> = mk();
    let b: re::math::vec::Vec3<()> = mk();
    let _r: re::math::vec::Vec3<re::render::Model> = a.apply(&b);
}

pub fn p1035() {
    let a: re::math::mat::Mat4x4<re::math::mat::RealToReal<3, re::render::World, re::render::World>> = mk();
    let b: re::math::vec::Vec3<()> = mk();
    let _r: re::math::vec::Vec3<()> = a.apply(&b);
}

pub fn p1036() {
    let a: re::math::mat::Mat4x4<re::math::mat::RealToReal<3, re::render::World, re::render::World>> = mk();
    let b: re::math::vec::Vec3<()> = mk();
    let _r: re::math::vec::Vec3<re::render::World> = a.apply(&b);
}

pub fn p1037() {
    let a: re::math::mat::Mat4x4<re::math::mat::RealToReal<3, re::render::World, re::render::World>> = mk();
    let b: re::math::vec::Vec3<()> = mk();
    let _ = a.apply(&b);
}

pub fn p1038() {
    let a: re::math::mat::Mat4x4<re::math::mat::RealToReal<3, re::render::World, re::render::World>> = mk();
    let b: re::math::vec::Vec3<re::render::World> = mk();
    let _r: re::math::vec::Vec3<re::render::Model> = a.apply(&b);
}

pub fn p1039() {
    let a: re::math::mat::Mat4x4<re::math::mat::RealToReal<3, re::render::World, re::render::World>> = mk();
    let b: re::math::vec::Vec3<re::render::World> = mk();
    let _r: re::math::vec::Vec3<()> = a.apply(&b);
}

pub fn p1042() {
    let a: re::math::mat::Mat4x4<re::math::mat::RealToReal<3, re::render::World, re::render::World>> = mk();
    let _ = re::render::cam::Camera::new((8, 8)).mode(a);
}

pub fn p1047() {
    let a: re::math::mat::Mat4x4<re::math::mat::RealToProj<re::render::Model>> = mk();
    let b: re::math::mat::Mat4x4<re::render::ModelToProj> = mk();
    let _ = a.then(&b);
}

pub fn p1048() {
    let a: re::math::mat::Mat4x4<re::math::mat::RealToProj<re::render::Model>> = mk();
    let b: re::math::mat::Mat4x4<re::render::ModelToView> = mk();
    let _ = a.then(&b);
}

pub fn p1049() {
    let a: re::math::mat::Mat4x4<re::math::mat::RealToProj<re::render::Model>> = mk();
    let b: re::math::mat::Mat4x4<re::render::ModelToWorld> = mk();
    let _ = a.then(&b);
}

pub fn p1050() {
    let a: re::math::mat::Mat4x4<re::math::mat::RealToProj<re::render::Model>> = mk();
    let b: re::math::mat::Mat4x4<re::render::ViewToProj> = mk();
    let _ = a.then(&b);
}

pub fn p1051() {
    let a: re::math::mat::Mat4x4<re::math::mat::RealToProj<re::render::Model>> = mk();
    let b: re::math::mat::Mat4x4<re::render::WorldToView> = mk();
    let _ = a.then(&b);
}

pub fn p1052() {
    let a: re::math::mat::Mat4x4<re::math::mat::RealToProj<re::render::Model>> = mk();
    let b: re::math::mat::Mat4x4<re::math::mat::RealToReal<3, re::render::Model, re::render::Model>> = mk();
    let _ = a.then(&b);
}

pub fn p1054() {
    let a: re::math::mat::Mat4x4<re::math::mat::RealToProj<re::render::Model>> = mk();
    let b: re::math::mat::Mat4x4<re::math::mat::RealToReal<3, re::render::Model, ()>> = mk();
    let _ = a.compose(&b);
}

pub fn p1055() {
    let a: re::math::mat::Mat4x4<re::math::mat::RealToProj<re::render::Model>> = mk();
    let b: re::math::mat::Mat4x4<re::math::mat::RealToReal<3, re::render::Model, ()>> = mk();
    let _ = a.then(&b);
}

pub fn p1056() {
    let a: re::math::mat::Mat4x4<re::math::mat::RealToProj<re::render::Model>> = mk();
    let b: re::math::mat::Mat4x4<re::math::mat::RealToReal<3, re::render::Model, re::render::World>> = mk();
    let _ = a.compose(&b);
}

pub fn p1057() {
    let a: re::math::mat::Mat4x4<re::math::mat::RealToProj<re::render::Model>> = mk();
    let b: re::math::mat::Mat4x4<re::math::mat::RealToReal<3, re::render::Model, re::render::World>> = mk();
    let _ = a.then(&b);
}

pub fn p1058() {
    let a: re::math::mat::Mat4x4<re::math::mat::RealToProj<re::render::Model>> = mk();
    let b: re::math::mat::Mat4x4<re::math::mat::RealToReal<3, (), re::render::Model>> = mk();
    let _ = a.then(&b);
}

pub fn p1060() {
    let a: re::math::mat::Mat4x4<re::math::mat::RealToProj<re::render::Model>> = mk();
    let b: re::math::mat::Mat4x4<re::math::mat::RealToReal<3, (), ()>> = mk();
    let _ = a.compose(&b);
}

pub fn p1061() {
    let a: re::math::mat::Mat4x4<re::math::mat::RealToProj<re::render::Model>> = mk();
    let b: re::math::mat::Mat4x4<re::math::mat::RealToReal<3, (), ()>> = mk();
    let _ = a.then(&b);
}

pub fn p1062() {
    let a: re::math::mat::Mat4x4<re::math::mat::RealToProj<re::render::Model>> = mk();
    let b: re::math::mat::Mat4x4<re::math::mat::RealToReal<3, (), re::render::World>> = mk();
    let _ = a.compose(&b);
}

pub fn p1063() {
    let a: re::math::mat::Mat4x4<re::math::mat::RealToProj<re::render::Model>> = mk();
    let b: re::math::mat::Mat4x4<re::math::mat::RealToReal<3, (), re::render::World>> = mk();
    let _ = a.then(&b);
}

pub fn p1064() {
    let a: re::math::mat::Mat4x4<re::math::mat::RealToProj<re::render::Model>> = mk();
    let b: re::math::mat::Mat4x4<re::math::mat::RealToReal<3, re::render::World, re::render::Model>> = mk();
    let _ = a.then(&b);
}

pub fn p1066() {
    let a: re::math::mat::Mat4x4<re::math::mat::RealToProj<re::render::Model>> = mk();
    let b: re::math::mat::Mat4x4<re::math::mat::RealToReal<3, re::render::World, ()>> = mk();
    let _ = a.compose(&b);
}

pub fn p1067() {
    let a: re::math::mat::Mat4x4<re::math::mat::RealToProj<re::render::Model>> = mk();
    let b: re::math::mat::Mat4x4<re::math::mat::RealToReal<3, re::render::World, ()>> = mk();
    let _ = a.then(&b);
}

pub fn p1068() {
    let a: re::math::mat::Mat4x4<re::math::mat::RealToProj<re::render::Model>> = mk();
    let b: re::math::mat::Mat4x4<re::math::mat::RealToReal<3, re::render::World, re::render::World>> = mk();
    let _ = a.compose(&b);
}

pub fn p1069() {
    let a: re::math::mat::Mat4x4<re::math::mat::RealToProj<re::render::Model>> = mk();
    let b: re::math::mat::Mat4x4<re::math::mat::RealToReal<3, re::render::World, re::render::World>> = mk();
    let _ = a.then(&b);
}

pub fn p1071() {
    let a: re::math::mat::Mat4x4<re::math::mat::RealToProj<re::render::Model>> = mk();
    let b: re::math::point::Point3<re::render::Model> = mk();
    let _ = a.apply_pt(&b);
}

pub fn p1072() {
    let a: re::math::mat::Mat4x4<re::math::mat::RealToProj<re::render::Model>> = mk();
    let b: re::math::point::Point3<()> = mk();
    let _ = a.apply(&b);
}

pub fn p1073() {
    let a: re::math::mat::Mat4x4<re::math::mat::RealToProj<re::render::Model>> = mk();
    let b: re::math::point::Point3<()> = mk();
    let _ = a.apply_pt(&b);
}

pub fn p1074() {
    let a: re::math::mat::Mat4x4<re::math::mat::RealToProj<re::render::Model>> = mk();
    let b: re::math::point::Point3<re::render::View> = mk();
    let _ = a.apply(&b);
}

pub fn p1075() {
    let a: re::math::mat::Mat4x4<re::math::mat::RealToProj<re::render::Model>> = mk();
    let b: re::math::point::Point3<re::render::View> = mk();
    let _ = a.apply_pt(&b);
}

pub fn p1076() {
    let a: re::math::mat::Mat4x4<re::math::mat::RealToProj<re::render::Model>> = mk();
    let b: re::math::point::Point3<re::render::World> = mk();
    let _ = a.apply(&b);
}

pub fn p1077() {
    let a: re::math::mat::Mat4x4<re::math::mat::RealToProj<re::render::Model>> = mk();
    let b: re::math::point::Point3<re::render::World> = mk();
    let _ = a.apply_pt(&b);
}

pub fn p1078() {
    let a: re::math::mat::Mat4x4<re::math::mat::RealToProj<re::render::Model>> = mk();
    let b: re::math::vec::Vec3<re::render::Model> = mk();
    let _ = a.apply(&b);
}

pub fn p1079() {
    let a: re::math::mat::Mat4x4<re::math::mat::RealToProj<re::render::Model>> = mk();
    let b: re::math::vec::Vec3<()> = mk();
    let _ = a.apply(&b);
}

pub fn p1080() {
    let a: re::math::mat::Mat4x4<re::math::mat::RealToProj<re::render::Model>> = mk();
    let b: re::math::vec::Vec3<re::render::World> = mk();
    let _ = a.apply(&b);
}

pub fn p1081() {
    let a: re::math::mat::Mat4x4<re::math::mat::RealToProj<re::render::Model>> = mk();
    let _ = re::render::cam::Camera::new((8, 8)).mode(a);
}

pub fn p1083() {
    let a: re::math::mat::Mat4x4<re::math::mat::RealToProj<re::render::Model>> = mk();
    let _ = a.determinant();
}

pub fn p1084() {
    let a: re::math::mat::Mat4x4<re::math::mat::RealToProj<re::render::Model>> = mk();
    let _ = a.inverse();
}

pub fn p1085() {
    let a: re::math::mat::Mat4x4<re::math::mat::RealToProj<re::render::Model>> = mk();
    let _ = a.transpose();
}

pub fn p1086() {
    let a: re::math::mat::Mat4x4<re::math::mat::RealToProj<()>> = mk();
    let b: re::math::mat::Mat4x4<re::math::mat::RealToReal<3, re::render::Model, re::render::Model>> = mk();
    let _ = a.compose(&b);
}

pub fn p1087() {
    let a: re::math::mat::Mat4x4<re::math::mat::RealToProj<()>> = mk();
    let b: re::math::mat::Mat4x4<re::math::mat::RealToReal<3, re::render::Model, re::render::Model>> = mk();
    let _ = a.then(&b);
}

pub fn p1088() {
    let a: re::math::mat::Mat4x4<re::math::mat::RealToProj<()>> = mk();
    let b: re::math::mat::Mat4x4<re::math::mat::RealToReal<3, re::render::Model, ()>> = mk();
    let _ = a.then(&b);
}

pub fn p1090() {
    let a: re::math::mat::Mat4x4<re::math::mat::RealToProj<()>> = mk();
    let b: re::math::mat::Mat4x4<re::math::mat::RealToReal<3, re::render::Model, re::render::World>> = mk();
    let _ = a.compose(&b);
}

pub fn p1091() {
    let a: re::math::mat::Mat4x4<re::math::mat::RealToProj<()>> = mk();
    let b: re::math::mat::Mat4x4<re::math::mat::RealToReal<3, re::render::Model, re::render::World>> = mk();
    let _ = a.then(&b);
}

pub fn p1092() {
    let a: re::math::mat::Mat4x4<re::math::mat::RealToProj<()>> = mk();
    let b: re::math::mat::Mat4x4<re::math::mat::RealToReal<3, (), re::render::Model>> = mk();
    let _ = a.compose(&b);
}

pub fn p1093() {
    let a: re::math::mat::Mat4x4<re::math::mat::RealToProj<()>> = mk();
    let b: re::math::mat::Mat4x4<re::math::mat::RealToReal<3, (), re::render::Model>> = mk();
    let _ = a.then(&b);
}

pub fn p1094() {
    let a: re::math::mat::Mat4x4<re::math::mat::RealToProj<()>> = mk();
    let b: re::math::mat::Mat4x4<re::math::mat::RealToReal<3, (), ()>> = mk();
    let _ = a.then(&b);
}

pub fn p1096() {
    let a: re::math::mat::Mat4x4<re::math::mat::RealToProj<()>> = mk();
    let b: re::math::mat::Mat4x4<re::math::mat::RealToReal<3, (), re::render::World>> = mk();
    let _ = a.compose(&b);
}

pub fn p1097() {
    let a: re::math::mat::Mat4x4<re::math::mat::RealToProj<()>> = mk();
    let b: re::math::mat::Mat4x4<re::math::mat::RealToReal<3, (), re::render::World>> = mk();
    let _ = a.then(&b);
}

pub fn p1098() {
    let a: re::math::mat::Mat4x4<re::math::mat::RealToProj<()>> = mk();
    let b: re::math::mat::Mat4x4<re::math::mat::RealToReal<3, re::render::World, re::render::Model>> = mk();
    let _ = a.compose(&b);
}

pub fn p1099() {
    let a: re::math::mat::Mat4x4<re::math::mat::RealToProj<()>> = mk();
    let b: re::math::mat::Mat4x4<re::math::mat::RealToReal<3, re::render::World, re::render::Model>> = mk();
    let _ = a.then(&b);
}

pub fn p1100() {
    let a: re::math::mat::Mat4x4<re::math::mat::RealToProj<()>> = mk();
    let b: re::math::mat::Mat4x4<re::math::mat::RealToReal<3, re::render::World, ()>> = mk();
    let _ = a.then(&b);
}

pub fn p1102() {
    let a: re::math::mat::Mat4x4<re::math::mat::RealToProj<()>> = mk();
    let b: re::math::mat::Mat4x4<re::math::mat::RealToReal<3, re::render::World, re::render::World>> = mk();
    let _ = a.compose(&b);
}

pub fn p1103() {
    let a: re::math::mat::Mat4x4<re::math::mat::RealToProj<()>> = mk();
    let b: re::math::mat::Mat4x4<re::math::mat::RealToReal<3, re::render::World, re::render::World>> = mk();
    let _ = a.then(&b);
}

pub fn p1104() {
    let a: re::math::mat::Mat4x4<re::math::mat::RealToProj<()>> = mk();
    let b: re::math::point::Point3<re::render::Model> = mk();
    let _ = a.apply(&b);
}

pub fn p1105() {
    let a: re::math::mat::Mat4x4<re::math::mat::RealToProj<()>> = mk();
    let b: re::math::point::Point3<re::render::Model> = mk();
    let _ = a.apply_pt(&b);
}

pub fn p1107() {
    let a: re::math::mat::Mat4x4<re::math::mat::RealToProj<()>> = mk();
    let b: re::math::point::Point3<()> = mk();
    let _ = a.apply_pt(&b);
}

pub fn p1108() {
    let a: re::math::mat::Mat4x4<re::math::mat::RealToProj<()>> = mk();
    let b: re::math::point::Point3<re::render::World> = mk();
    let _ = a.apply(&b);
}

pub fn p1109() {
    let a: re::math::mat::Mat4x4<re::math::mat::RealToProj<()>> = mk();
    let b: re::math::point::Point3<re::render::World> = mk();
    let _ = a.apply_pt(&b);
}

pub fn p1110() {
    let a: re::math::mat::Mat4x4<re::math::mat::RealToProj<()>> = mk();
    let b: re::math::vec::Vec3<re::render::Model> = mk();
    let _ = a.apply(&b);
}

pub fn p1111() {
    let a: re::math::mat::Mat4x4<re::math::mat::RealToProj<()>> = mk();
    let b: re::math::vec::Vec3<()> = mk();
    let _ = a.apply(&b);
}

pub fn p1112() {
    let a: re::math::mat::Mat4x4<re::math::mat::RealToProj<()>> = mk();
    let b: re::math::vec::Vec3<re::render::World> = mk();
    let _ = a.apply(&b);
}

pub fn p1113() {
    let a: re::math::mat::Mat4x4<re::math::mat::RealToProj<()>> = mk();
    let _ = a.determinant();
}

pub fn p1114() {
    let a: re::math::mat::Mat4x4<re::math::mat::RealToProj<()>> = mk();
    let _ = a.inverse();
}

pub fn p1115() {
    let a: re::math::mat::Mat4x4<re::math::mat::RealToProj<()>> = mk();
    let _ = a.transpose();
}

pub fn p1116() {
    let a: re::math::mat::Mat4x4<re::math::mat::RealToProj<re::render::View>> = mk();
    let b: re::math::mat::Mat4x4<re::render::ModelToProj> = mk();
    let _ = a.then(&b);
}

pub fn p1117() {
    let a: re::math::mat::Mat4x4<re::math::mat::RealToProj<re::render::View>> = mk();
    let b: re::math::mat::Mat4x4<re::render::ModelToView> = mk();
    let _ = a.then(&b);
}

pub fn p1118() {
    let a: re::math::mat::Mat4x4<re::math::mat::RealToProj<re::render::View>> = mk();
    let b: re::math::mat::Mat4x4<re::render::ModelToWorld> = mk();
    let _ = a.then(&b);
}

pub fn p1119() {
    let a: re::math::mat::Mat4x4<re::math::mat::RealToProj<re::render::View>> = mk();
    let b: re::math::mat::Mat4x4<re::render::ViewToProj> = mk();
    let _ = a.then(&b);
}

pub fn p1120() {
    let a: re::math::mat::Mat4x4<re::math::mat::RealToProj<re::render::View>> = mk();
    let b: re::math::mat::Mat4x4<re::render::WorldToView> = mk();
    let _ = a.then(&b);
}

pub fn p1121() {
    let a: re::math::mat::Mat4x4<re::math::mat::RealToProj<re::render::View>> = mk();
    let b: re::math::point::Point3<re::render::Model> = mk();
    let _ = a.apply(&b);
}

pub fn p1122() {
    let a: re::math::mat::Mat4x4<re::math::mat::RealToProj<re::render::View>> = mk();
    let b: re::math::point::Point3<re::render::Model> = mk();
    let _ = a.apply_pt(&b);
}

pub fn p1124() {
    let a: re::math::mat::Mat4x4<re::math::mat::RealToProj<re::render::View>> = mk();
    let b: re::math::point::Point3<re::render::View> = mk();
    let _ = a.apply_pt(&b);
}

pub fn p1125() {
    let a: re::math::mat::Mat4x4<re::math::mat::RealToProj<re::render::View>> = mk();
    let b: re::math::point::Point3<re::render::World> = mk();
    let _ = a.apply(&b);
}

pub fn p1126() {
    let a: re::math::mat::Mat4x4<re::math::mat::RealToProj<re::render::View>> = mk();
    let b: re::math::point::Point3<re::render::World> = mk();
    let _ = a.apply_pt(&b);
}

pub fn p1127() {
    let a: re::math::mat::Mat4x4<re::math::mat::RealToProj<re::render::View>> = mk();
    let _ = re::render::cam::Camera::new((8, 8)).mode(a);
}

pub fn p1129() {
    let a: re::math::mat::Mat4x4<re::math::mat::RealToProj<re::render::World>> = mk();
    let b: re::math::mat::Mat4x4<re::render::ModelToProj> = mk();
    let _ = a.then(&b);
}

pub fn p1130() {
    let a: re::math::mat::Mat4x4<re::math::mat::RealToProj<re::render::World>> = mk();
    let b: re::math::mat::Mat4x4<re::render::ModelToView> = mk();
    let _ = a.then(&b);
}

pub fn p1131() {
    let a: re::math::mat::Mat4x4<re::math::mat::RealToProj<re::render::World>> = mk();
    let b: re::math::mat::Mat4x4<re::render::ModelToWorld> = mk();
    let _ = a.then(&b);
}

pub fn p1132() {
    let a: re::math::mat::Mat4x4<re::math::mat::RealToProj<re::render::World>> = mk();
    let b: re::math::mat::Mat4x4<re::render::ViewToProj> = mk();
    let _ = a.then(&b);
}

pub fn p1133() {
    let a: re::math::mat::Mat4x4<re::math::mat::RealToProj<re::render::World>> = mk();
    let b: re::math::mat::Mat4x4<re::render::WorldToView> = mk();
    let _ = a.then(&b);
}

pub fn p1134() {
    let a: re::math::mat::Mat4x4<re::math::mat::RealToProj<re::render::World>> = mk();
    let b: re::math::mat::Mat4x4<re::math::mat::RealToReal<3, re::render::Model, re::render::Model>> = mk();
    let _ = a.compose(&b);
}

pub fn p1135() {
    let a: re::math::mat::Mat4x4<re::math::mat::RealToProj<re::render::World>> = mk();
    let b: re::math::mat::Mat4x4<re::math::mat::RealToReal<3, re::render::Model, re::render::Model>> = mk();
    let _ = a.then(&b);
}

pub fn p1136() {
    let a: re::math::mat::Mat4x4<re::math::mat::RealToProj<re::render::World>> = mk();
    let b: re::math::mat::Mat4x4<re::math::mat::RealToReal<3, re::render::Model, ()>> = mk();
    let _ = a.compose(&b);
}

pub fn p1137() {
    let a: re::math::mat::Mat4x4<re::math::mat::RealToProj<re::render::World>> = mk();
    let b: re::math::mat::Mat4x4<re::math::mat::RealToReal<3, re::render::Model, ()>> = mk();
    let _ = a.then(&b);
}

pub fn p1138() {
    let a: re::math::mat::Mat4x4<re::math::mat::RealToProj<re::render::World>> = mk();
    let b: re::math::mat::Mat4x4<re::math::mat::RealToReal<3, re::render::Model, re::render::World>> = mk();
    let _ = a.then(&b);
}

pub fn p1140() {
    let a: re::math::mat::Mat4x4<re::math::mat::RealToProj<re::render::World>> = mk();
    let b: re::math::mat::Mat4x4<re::math::mat::RealToReal<3, (), re::render::Model>> = mk();
    let _ = a.compose(&b);
}

pub fn p1141() {
    let a: re::math::mat::Mat4x4<re::math::mat::RealToProj<re::render::World>> = mk();
    let b: re::math::mat::Mat4x4<re::math::mat::RealToReal<3, (), re::render::Model>> = mk();
    let _ = a.then(&b);
}

pub fn p1142() {
    let a: re::math::mat::Mat4x4<re::math::mat::RealToProj<re::render::World>> = mk();
    let b: re::math::mat::Mat4x4<re::math::mat::RealToReal<3, (), ()>> = mk();
    let _ = a.compose(&b);
}

pub fn p1143() {
    let a: re::math::mat::Mat4x4<re::math::mat::RealToProj<re::render::World>> = mk();
    let b: re::math::mat::Mat4x4<re::math::mat::RealToReal<3, (), ()>> = mk();
    let _ = a.then(&b);
}

pub fn p1144() {
    let a: re::math::mat::Mat4x4<re::math::mat::RealToProj<re::render::World>> = mk();
    let b: re::math::mat::Mat4x4<re::math::mat::RealToReal<3, (), re::render::World>> = mk();
    let _ = a.then(&b);
}

pub fn p1146() {
    let a: re::math::mat::Mat4x4<re::math::mat::RealToProj<re::render::World>> = mk();
    let b: re::math::mat::Mat4x4<re::math::mat::RealToReal<3, re::render::World, re::render::Model>> = mk();
    let _ = a.compose(&b);
}

pub fn p1147() {
    let a: re::math::mat::Mat4x4<re::math::mat::RealToProj<re::render::World>> = mk();
    let b: re::math::mat::Mat4x4<re::math::mat::RealToReal<3, re::render::World, re::render::Model>> = mk();
    let _ = a.then(&b);
}

pub fn p1148() {
    let a: re::math::mat::Mat4x4<re::math::mat::RealToProj<re::render::World>> = mk();
    let b: re::math::mat::Mat4x4<re::math::mat::RealToReal<3, re::render::World, ()>> = mk();
    let _ = a.compose(&b);
}

pub fn p1149() {
    let a: re::math::mat::Mat4x4<re::math::mat::RealToProj<re::render::World>> = mk();
    let b: re::math::mat::Mat4x4<re::math::mat::RealToReal<3, re::render::World, ()>> = mk();
    let _ = a.then(&b);
}

pub fn p1150() {
    let a: re::math::mat::Mat4x4<re::math::mat::RealToProj<re::render::World>> = mk();
    let b: re::math::mat::Mat4x4<re::math::mat::RealToReal<3, re::render::World, re::render::World>> = mk();
    let _ = a.then(&b);
}

pub fn p1152() {
    let a: re::math::mat::Mat4x4<re::math::mat::RealToProj<re::render::World>> = mk();
    let b: re::math::point::Point3<re::render::Model> = mk();
    let _ = a.apply(&b);
}

pub fn p1153() {
    let a: re::math::mat::Mat4x4<re::math::mat::RealToProj<re::render::World>> = mk();
    let b: re::math::point::Point3<re::render::Model> = mk();
    let _ = a.apply_pt(&b);
}

pub fn p1154() {
    let a: re::math::mat::Mat4x4<re::math::mat::RealToProj<re::render::World>> = mk();
    let b: re::math::point::Point3<()> = mk();
    let _ = a.apply(&b);
}

pub fn p1155() {
    let a: re::math::mat::Mat4x4<re::math::mat::RealToProj<re::render::World>> = mk();
    let b: re::math::point::Point3<()> = mk();
    let _ = a.apply_pt(&b);
}

pub fn p1156() {
    let a: re::math::mat::Mat4x4<re::math::mat::RealToProj<re::render::World>> = mk();
    let b: re::math::point::Point3<re::render::View> = mk();
    let _ = a.apply(&b);
}

pub fn p1157() {
    let a: re::math::mat::Mat4x4<re::math::mat::RealToProj<re::render::World>> = mk();
    let b: re::math::point::Point3<re::render::View> = mk();
    let _ = a.apply_pt(&b);
}

pub fn p1159() {
    let a: re::math::mat::Mat4x4<re::math::mat::RealToProj<re::render::World>> = mk();
    let b: re::math::point::Point3<re::render::World> = mk();
    let _ = a.apply_pt(&b);
}

pub fn p1160() {
    let a: re::math::mat::Mat4x4<re::math::mat::RealToProj<re::render::World>> = mk();
    let b: re::math::vec::Vec3<re::render::Model> = mk();
    let _ = a.apply(&b);
}

pub fn p1161() {
    let a: re::math::mat::Mat4x4<re::math::mat::RealToProj<re::render::World>> = mk();
    let b: re::math::vec::Vec3<()> = mk();
    let _ = a.apply(&b);
}

pub fn p1162() {
    let a: re::math::mat::Mat4x4<re::math::mat::RealToProj<re::render::World>> = mk();
    let b: re::math::vec::Vec3<re::render::World> = mk();
    let _ = a.apply(&b);
}

pub fn p1163() {
    let a: re::math::mat::Mat4x4<re::math::mat::RealToProj<re::render::World>> = mk();
    let _ = re::render::cam::Camera::new((8, 8)).mode(a);
}

pub fn p1165() {
    let a: re::math::mat::Mat4x4<re::math::mat::RealToProj<re::render::World>> = mk();
    let _ = a.determinant();
}

pub fn p1166() {
    let a: re::math::mat::Mat4x4<re::math::mat::RealToProj<re::render::World>> = mk();
    let _ = a.inverse();
}

pub fn p1167() {
    let a: re::math::mat::Mat4x4<re::math::mat::RealToProj<re::render::World>> = mk();
    let _ = a.transpose();
}

pub fn p1175() {
    let a: re::math::point::Point2<re::render::Model> = mk();
    let b: re::math::angle::PolarVec = mk();
    let _ = a + b;
}

pub fn p1176() {
    let a: re::math::point::Point2<re::render::Model> = mk();
    let b: re::math::angle::PolarVec = mk();
    let _ = a + b.to_cart();
}

pub fn p1177() {
    let a: re::math::point::Point2<re::render::Model> = mk();
    let b: re::math::angle::PolarVec = mk();
    let _ = a + b.into();
}

pub fn p1178() {
    let a: re::math::point::Point2<re::render::Model> = mk();
    let b: re::math::point::Point2<re::render::Model> = mk();
    let _ = a + b;
}

pub fn p1181() {
    let a: re::math::point::Point2<re::render::Model> = mk();
    let b: re::math::point::Point2<()> = mk();
    let _ = a + b;
}

pub fn p1182() {
    let a: re::math::point::Point2<re::render::Model> = mk();
    let b: re::math::point::Point2<()> = mk();
    let _ = re::math::Lerp::lerp(&a, &b, 0.5);
}

pub fn p1183() {
    let a: re::math::point::Point2<re::render::Model> = mk();
    let b: re::math::point::Point2<()> = mk();
    let _ = a - b;
}

pub fn p1184() {
    let a: re::math::point::Point2<re::render::Model> = mk();
    let b: re::math::point::Point2<re::render::World> = mk();
    let _ = a + b;
}

pub fn p1185() {
    let a: re::math::point::Point2<re::render::Model> = mk();
    let b: re::math::point::Point2<re::render::World> = mk();
    let _ = re::math::Lerp::lerp(&a, &b, 0.5);
}

pub fn p1186() {
    let a: re::math::point::Point2<re::render::Model> = mk();
    let b: re::math::point::Point2<re::render::World> = mk();
    let _ = a - b;
}

pub fn p1187() {
    let a: re::math::point::Point2<re::render::Model> = mk();
    let b: re::math::point::Point3<re::render::Model> = mk();
    let _ = a + b;
}

pub fn p1188() {
    let a: re::math::point::Point2<re::render::Model> = mk();
    let b: re::math::point::Point3<re::render::Model> = mk();
    let _ = re::math::Lerp::lerp(&a, &b, 0.5);
}

pub fn p1189() {
    let a: re::math::point::Point2<re::render::Model> = mk();
    let b: re::math::point::Point3<re::render::Model> = mk();
    let _ = a - b;
}

pub fn p1190() {
    let a: re::math::point::Point2<re::render::Model> = mk();
    let b: re::math::point::Point3<()> = mk();
    let _ = a + b;
}

pub fn p1191() {
    let a: re::math::point::Point2<re::render::Model> = mk();
    let b: re::math::point::Point3<()> = mk();
    let _ = re::math::Lerp::lerp(&a, &b, 0.5);
}

pub fn p1192() {
    let a: re::math::point::Point2<re::render::Model> = mk();
    let b: re::math::point::Point3<()> = mk();
    let _ = a - b;
}

pub fn p1193() {
    let a: re::math::point::Point2<re::render::Model> = mk();
    let b: re::math::point::Point3<re::render::World> = mk();
    let _ = a + b;
}

pub fn p1194() {
    let a: re::math::point::Point2<re::render::Model> = mk();
    let b: re::math::point::Point3<re::render::World> = mk();
    let _ = re::math::Lerp::lerp(&a, &b, 0.5);
}

pub fn p1195() {
    let a: re::math::point::Point2<re::render::Model> = mk();
    let b: re::math::point::Point3<re::render::World> = mk();
    let _ = a - b;
}

pub fn p1196() {
    let a: re::math::point::Point2<re::render::Model> = mk();
    let b: re::math::angle::SphericalVec = mk();
    let _ = a + b;
}

pub fn p1197() {
    let a: re::math::point::Point2<re::render::Model> = mk();
    let b: re::math::angle::SphericalVec = mk();
    let _ = a + b.to_cart();
}

pub fn p1198() {
    let a: re::math::point::Point2<re::render::Model> = mk();
    let b: re::math::angle::SphericalVec = mk();
    let _ = a + b.into();
}

pub fn p1200() {
    let a: re::math::point::Point2<re::render::Model> = mk();
    let b: re::math::vec::Vec2<()> = mk();
    let _ = a + b;
}

pub fn p1201() {
    let a: re::math::point::Point2<re::render::Model> = mk();
    let b: re::math::vec::Vec2<re::render::World> = mk();
    let _ = a + b;
}

pub fn p1202() {
    let a: re::math::point::Point2<re::render::Model> = mk();
    let b: re::math::vec::Vec3<re::render::Model> = mk();
    let _ = a + b;
}

pub fn p1203() {
    let a: re::math::point::Point2<re::render::Model> = mk();
    let b: re::math::vec::Vec3<()> = mk();
    let _ = a + b;
}

pub fn p1204() {
    let a: re::math::point::Point2<re::render::Model> = mk();
    let b: re::math::vec::Vec3<re::render::World> = mk();
    let _ = a + b;
}

pub fn p1205() {
    let a: re::math::point::Point2<re::render::Model> = mk();
    let _ = [a.clone(), a].into_iter().sum::<re::math::point::Point2<re::render::Model>>();
}

pub fn p1206() {
    let a: re::math::point::Point2<()> = mk();
    let b: re::math::angle::PolarVec = mk();
    let _ = a + b;
}

pub fn p1209() {
    let a: re::math::point::Point2<()> = mk();
    let b: re::math::point::Point2<re::render::Model> = mk();
    let _ = a + b;
}

pub fn p1210() {
    let a: re::math::point::Point2<()> = mk();
    let b: re::math::point::Point2<re::render::Model> = mk();
    let _ = re::math::Lerp::lerp(&a, &b, 0.5);
}

pub fn p1211() {
    let a: re::math::point::Point2<()> = mk();
    let b: re::math::point::Point2<re::render::Model> = mk();
    let _ = a - b;
}

pub fn p1212() {
    let a: re::math::point::Point2<()> = mk();
    let b: re::math::point::Point2<()> = mk();
    let _ = a + b;
}

pub fn p1215() {
    let a: re::math::point::Point2<()> = mk();
    let b: re::math::point::Point2<re::render::World> = mk();
    let _ = a + b;
}

pub fn p1216() {
    let a: re::math::point::Point2<()> = mk();
    let b: re::math::point::Point2<re::render::World> = mk();
    let _ = re::math::Lerp::lerp(&a, &b, 0.5);
}

pub fn p1217() {
    let a: re::math::point::Point2<()> = mk();
    let b: re::math::point::Point2<re::render::World> = mk();
    let _ = a - b;
}

pub fn p1218() {
    let a: re::math::point::Point2<()> = mk();
    let b: re::math::point::Point3<re::render::Model> = mk();
    let _ = a + b;
}

pub fn p1219() {
    let a: re::math::point::Point2<()> = mk();
    let b: re::math::point::Point3<re::render::Model> = mk();
    let _ = re::math::Lerp::lerp(&a, &b, 0.5);
}

pub fn p1220() {
    let a: re::math::point::Point2<()> = mk();
    let b: re::math::point::Point3<re::render::Model> = mk();
    let _ = a - b;
}

pub fn p1221() {
    let a: re::math::point::Point2<()> = mk();
    let b: re::math::point::Point3<()> = mk();
    let _ = a + b;
}

pub fn p1222() {
    let a: re::math::point::Point2<()> = mk();
    let b: re::math::point::Point3<()> = mk();
    let _ = re::math::Lerp::lerp(&a, &b, 0.5);
}

pub fn p1223() {
    let a: re::math::point::Point2<()> = mk();
    let b: re::math::point::Point3<()> = mk();
    let _ = a - b;
}

pub fn p1224() {
    let a: re::math::point::Point2<()> = mk();
    let b: re::math::point::Point3<re::render::World> = mk();
    let _ = a + b;
}

pub fn p1225() {
    let a: re::math::point::Point2<()> = mk();
    let b: re::math::point::Point3<re::render::World> = mk();
    let _ = re::math::Lerp::lerp(&a, &b, 0.5);
}

pub fn p1226() {
    let a: re::math::point::Point2<()> = mk();
    let b: re::math::point::Point3<re::render::World> = mk();
    let _ = a - b;
}

pub fn p1227() {
    let a: re::math::point::Point2<()> = mk();
    let b: re::math::angle::SphericalVec = mk();
    let _ = a + b;
}

pub fn p1228() {
    let a: re::math::point::Point2<()> = mk();
    let b: re::math::angle::SphericalVec = mk();
    let _ = a + b.to_cart();
}

pub fn p1229() {
    let a: re::math::point::Point2<()> = mk();
    let b: re::math::angle::SphericalVec = mk();
    let _ = a + b.into();
}

pub fn p1230() {
    let a: re::math::point::Point2<()> = mk();
    let b: re::math::vec::Vec2<re::render::Model> = mk();
    let _ = a + b;
}

pub fn p1232() {
    let a: re::math::point::Point2<()> = mk();
    let b: re::math::vec::Vec2<re::render::World> = mk();
    let _ = a + b;
}

pub fn p1233() {
    let a: re::math::point::Point2<()> = mk();
    let b: re::math::vec::Vec3<re::render::Model> = mk();
    let _ = a + b;
}

pub fn p1234() {
    let a: re::math::point::Point2<()> = mk();
    let b: re::math::vec::Vec3<()> = mk();
    let _ = a + b;
}

pub fn p1235() {
    let a: re::math::point::Point2<()> = mk();
    let b: re::math::vec::Vec3<re::render::World> = mk();
    let _ = a + b;
}

pub fn p1236() {
    let a: re::math::point::Point2<()> = mk();
    let _ = [a.clone(), a].into_iter().sum::<re::math::point::Point2<()>>();
}

pub fn p1237() {
    let a: re::math::point::Point2<re::render::World> = mk();
    let b: re::math::point::Point2<re::render::Model> = mk();
    let _ = a + b;
}

pub fn p1238() {
    let a: re::math::point::Point2<re::render::World> = mk();
    let b: re::math::point::Point2<re::render::Model> = mk();
    let _ = re::math::Lerp::lerp(&a, &b, 0.5);
}

pub fn p1239() {
    let a: re::math::point::Point2<re::render::World> = mk();
    let b: re::math::point::Point2<re::render::Model> = mk();
    let _ = a - b;
}

pub fn p1240() {
    let a: re::math::point::Point2<re::render::World> = mk();
    let b: re::math::point::Point2<()> = mk();
    let _ = a + b;
}

pub fn p1241() {
    let a: re::math::point::Point2<re::render::World> = mk();
    let b: re::math::point::Point2<()> = mk();
    let _ = re::math::Lerp::lerp(&a, &b, 0.5);
}

pub fn p1242() {
    let a: re::math::point::Point2<re::render::World> = mk();
    let b: re::math::point::Point2<()> = mk();
    let _ = a - b;
}

pub fn p1243() {
    let a: re::math::point::Point2<re::render::World> = mk();
    let b: re::math::point::Point2<re::render::World> = mk();
    let _ = a + b;
}

pub fn p1246() {
    let a: re::math::point::Point2<re::render::World> = mk();
    let b: re::math::point::Point3<re::render::Model> = mk();
    let _ = a + b;
}

pub fn p1247() {
    let a: re::math::point::Point2<re::render::World> = mk();
    let b: re::math::point::Point3<re::render::Model> = mk();
    let _ = re::math::Lerp::lerp(&a, &b, 0.5);
}

pub fn p1248() {
    let a: re::math::point::Point2<re::render::World> = mk();
    let b: re::math::point::Point3<re::render::Model> = mk();
    let _ = a - b;
}

pub fn p1249() {
    let a: re::math::point::Point2<re::render::World> = mk();
    let b: re::math::point::Point3<()> = mk();
    let _ = a + b;
}

pub fn p1250() {
    let a: re::math::point::Point2<re::render::World> = mk();
    let b: re::math::point::Point3<()> = mk();
    let _ = re::math::Lerp::lerp(&a, &b, 0.5);
}

pub fn p1251() {
    let a: re::math::point::Point2<re::render::World> = mk();
    let b: re::math::point::Point3<()> = mk();
    let _ = a - b;
}

pub fn p1252() {
    let a: re::math::point::Point2<re::render::World> = mk();
    let b: re::math::point::Point3<re::render::World> = mk();
    let _ = a + b;
}

pub fn p1253() {
    let a: re::math::point::Point2<re::render::World> = mk();
    let b: re::math::point::Point3<re::render::World> = mk();
    let _ = re::math::Lerp::lerp(&a, &b, 0.5);
}

pub fn p1254() {
    let a: re::math::point::Point2<re::render::World> = mk();
    let b: re::math::point::Point3<re::render::World> = mk();
    let _ = a - b;
}

pub fn p1255() {
    let a: re::math::point::Point2<re::render::World> = mk();
    let b: re::math::vec::Vec2<re::render::Model> = mk();
    let _ = a + b;
}

pub fn p1256() {
    let a: re::math::point::Point2<re::render::World> = mk();
    let b: re::math::vec::Vec2<()> = mk();
    let _ = a + b;
}

pub fn p1258() {
    let a: re::math::point::Point2<re::render::World> = mk();
    let b: re::math::vec::Vec3<re::render::Model> = mk();
    let _ = a + b;
}

pub fn p1259() {
    let a: re::math::point::Point2<re::render::World> = mk();
    let b: re::math::vec::Vec3<()> = mk();
    let _ = a + b;
}

pub fn p1260() {
    let a: re::math::point::Point2<re::render::World> = mk();
    let b: re::math::vec::Vec3<re::render::World> = mk();
    let _ = a + b;
}

pub fn p1261() {
    let a: re::math::point::Point2<re::render::World> = mk();
    let _ = [a.clone(), a].into_iter().sum::<re::math::point::Point2<re::render::World>>();
}

pub fn p1262() {
    let a: re::math::point::Point3<re::render::Model> = mk();
    let b: re::math::angle::PolarVec = mk();
    let _ = a + b;
}

pub fn p1263() {
    let a: re::math::point::Point3<re::render::Model> = mk();
    let b: re::math::angle::PolarVec = mk();
    let _ = a + b.to_cart();
}

pub fn p1264() {
    let a: re::math::point::Point3<re::render::Model> = mk();
    let b: re::math::angle::PolarVec = mk();
    let _ = a + b.into();
}

pub fn p1265() {
    let a: re::math::point::Point3<re::render::Model> = mk();
    let b: re::math::point::Point2<re::render::Model> = mk();
    let _ = a + b;
}

pub fn p1266() {
    let a: re::math::point::Point3<re::render::Model> = mk();
    let b: re::math::point::Point2<re::render::Model> = mk();
    let _ = re::math::Lerp::lerp(&a, &b, 0.5);
}

pub fn p1267() {
    let a: re::math::point::Point3<re::render::Model> = mk();
    let b: re::math::point::Point2<re::render::Model> = mk();
    let _ = a - b;
}

pub fn p1268() {
    let a: re::math::point::Point3<re::render::Model> = mk();
    let b: re::math::point::Point2<()> = mk();
    let _ = a + b;
}

pub fn p1269() {
    let a: re::math::point::Point3<re::render::Model> = mk();
    let b: re::math::point::Point2<()> = mk();
    let _ = re::math::Lerp::lerp(&a, &b, 0.5);
}

pub fn p1270() {
    let a: re::math::point::Point3<re::render::Model> = mk();
    let b: re::math::point::Point2<()> = mk();
    let _ = a - b;
}

pub fn p1271() {
    let a: re::math::point::Point3<re::render::Model> = mk();
    let b: re::math::point::Point2<re::render::World> = mk();
    let _ = a + b;
}

pub fn p1272() {
    let a: re::math::point::Point3<re::render::Model> = mk();
    let b: re::math::point::Point2<re::render::World> = mk();
    let _ = re::math::Lerp::lerp(&a, &b, 0.5);
}

pub fn p1273() {
    let a: re::math::point::Point3<re::render::Model> = mk();
    let b: re::math::point::Point2<re::render::World> = mk();
    let _ = a - b;
}

pub fn p1274() {
    let a: re::math::point::Point3<re::render::Model> = mk();
    let b: re::math::point::Point3<re::render::Model> = mk();
    let _r: re::math::point::Point3<re::render::Model> = a - b;
}

pub fn p1276() {
    let a: re::math::point::Point3<re::render::Model> = mk();
    let b: re::math::point::Point3<re::render::Model> = mk();
    let _r: re::math::point::Point3<()> = a - b;
}

pub fn p1277() {
    let a: re::math::point::Point3<re::render::Model> = mk();
    let b: re::math::point::Point3<re::render::Model> = mk();
    let c: re::math::point::Point3<()> = mk();
    let d = re::math::space::Affine::sub(&a, &b);
    let _ = re::math::space::Affine::add(&c, &d);
}

pub fn p1278() {
    let a: re::math::point::Point3<re::render::Model> = mk();
    let b: re::math::point::Point3<re::render::Model> = mk();
    let _r: re::math::point::Point3<re::render::World> = a - b;
}

pub fn p1279() {
    let a: re::math::point::Point3<re::render::Model> = mk();
    let b: re::math::point::Point3<re::render::Model> = mk();
    let c: re::math::point::Point3<re::render::World> = mk();
    let d = re::math::space::Affine::sub(&a, &b);
    let _ = re::math::space::Affine::add(&c, &d);
}

pub fn p1281() {
    let a: re::math::point::Point3<re::render::Model> = mk();
    let b: re::math::point::Point3<re::render::Model> = mk();
    let _r: re::math::vec::Vec3<()> = a - b;
}

pub fn p1282() {
    let a: re::math::point::Point3<re::render::Model> = mk();
    let b: re::math::point::Point3<re::render::Model> = mk();
    let _r: re::math::vec::Vec3<re::render::World> = a - b;
}

pub fn p1283() {
    let a: re::math::point::Point3<re::render::Model> = mk();
    let b: re::math::point::Point3<re::render::Model> = mk();
    let _ = a + b;
}

pub fn p1286() {
    let a: re::math::point::Point3<re::render::Model> = mk();
    let b: re::math::point::Point3<()> = mk();
    let _r: re::math::point::Point3<re::render::Model> = a - b;
}

pub fn p1287() {
    let a: re::math::point::Point3<re::render::Model> = mk();
    let b: re::math::point::Point3<()> = mk();
    let c: re::math::point::Point3<re::render::Model> = mk();
    let d = re::math::space::Affine::sub(&a, &b);
    let _ = re::math::space::Affine::add(&c, &d);
}

pub fn p1288() {
    let a: re::math::point::Point3<re::render::Model> = mk();
    let b: re::math::point::Point3<()> = mk();
    let _r: re::math::point::Point3<()> = a - b;
}

pub fn p1289() {
    let a: re::math::point::Point3<re::render::Model> = mk();
    let b: re::math::point::Point3<()> = mk();
    let c: re::math::point::Point3<()> = mk();
    let d = re::math::space::Affine::sub(&a, &b);
    let _ = re::math::space::Affine::add(&c, &d);
}

pub fn p1290() {
    let a: re::math::point::Point3<re::render::Model> = mk();
    let b: re::math::point::Point3<()> = mk();
    let _r: re::math::point::Point3<re::render::World> = a - b;
}

pub fn p1291() {
    let a: re::math::point::Point3<re::render::Model> = mk();
    let b: re::math::point::Point3<()> = mk();
    let c: re::math::point::Point3<re::render::World> = mk();
    let d = re::math::space::Affine::sub(&a, &b);
    let _ = re::math::space::Affine::add(&c, &d);
}

pub fn p1292() {
    let a: re::math::point::Point3<re::render::Model> = mk();
    let b: re::math::point::Point3<()> = mk();
    let _r: re::math::vec::Vec3<re::render::Model> = a - b;
}

pub fn p1293() {
    let a: re::math::point::Point3<re::render::Model> = mk();
    let b: re::math::point::Point3<()> = mk();
    let _r: re::math::vec::Vec3<()> = a - b;
}

pub fn p1294() {
    let a: re::math::point::Point3<re::render::Model> = mk();
    let b: re::math::point::Point3<()> = mk();
    let _r: re::math::vec::Vec3<re::render::World> = a - b;
}

pub fn p1295() {
    let a: re::math::point::Point3<re::render::Model> = mk();
    let b: re::math::point::Point3<()> = mk();
    let _ = a + b;
}

pub fn p1296() {
    let a: re::math::point::Point3<re::render::Model> = mk();
    let b: re::math::point::Point3<()> = mk();
    let _ = re::math::Lerp::lerp(&a, &b, 0.5);
}

pub fn p1297() {
    let a: re::math::point::Point3<re::render::Model> = mk();
    let b: re::math::point::Point3<()> = mk();
    let _ = a - b;
}

pub fn p1298() {
    let a: re::math::point::Point3<re::render::Model> = mk();
    let b: re::math::point::Point3<re::render::World> = mk();
    let _r: re::math::point::Point3<re::render::Model> = a - b;
}

pub fn p1299() {
    let a: re::math::point::Point3<re::render::Model> = mk();
    let b: re::math::point::Point3<re::render::World> = mk();
    let c: re::math::point::Point3<re::render::Model> = mk();
    let d = re::math::space::Affine::sub(&a, &b);
    let _ = re::math::space::Affine::add(&c, &d);
}

pub fn p1300() {
    let a: re::math::point::Point3<re::render::Model> = mk();
    let b: re::math::point::Point3<re::render::World> = mk();
    let _r: re::math::point::Point3<()> = a - b;
}

pub fn p1301() {
    let a: re::math::point::Point3<re::render::Model> = mk();
    let b: re::math::point::Point3<re::render::World> = mk();
    let c: re::math::point::Point3<()> = mk();
    let d = re::math::space::Affine::sub(&a, &b);
    let _ = re::math::space::Affine::add(&c, &d);
}

pub fn p1302() {
    let a: re::math::point::Point3<re::render::Model> = mk();
    let b: re::math::point::Point3<re::render::World> = mk();
    let _r: re::math::point::Point3<re::render::World> = a - b;
}

pub fn p1303() {
    let a: re::math::point::Point3<re::render::Model> = mk();
    let b: re::math::point::Point3<re::render::World> = mk();
    let c: re::math::point::Point3<re::render::World> = mk();
    let d = re::math::space::Affine::sub(&a, &b);
    let _ = re::math::space::Affine::add(&c, &d);
}

pub fn p1304() {
    let a: re::math::point::Point3<re::render::Model> = mk();
    let b: re::math::point::Point3<re::render::World> = mk();
    let _r: re::math::vec::Vec3<re::render::Model> = a - b;
}

pub fn p1305() {
    let a: re::math::point::Point3<re::render::Model> = mk();
    let b: re::math::point::Point3<re::render::World> = mk();
    let _r: re::math::vec::Vec3<()> = a - b;
}

pub fn p1306() {
    let a: re::math::point::Point3<re::render::Model> = mk();
    let b: re::math::point::Point3<re::render::World> = mk();
    let _r: re::math::vec::Vec3<re::render::World> = a - b;
}

pub fn p1307() {
    let a: re::math::point::Point3<re::render::Model> = mk();
    let b: re::math::point::Point3<re::render::World> = mk();
    let _ = a + b;
}

pub fn p1308() {
    let a: re::math::point::Point3<re::render::Model> = mk();
    let b: re::math::point::Point3<re::render::World> = mk();
    let _ = re::math::Lerp::lerp(&a, &b, 0.5);
}

pub fn p1309() {
    let a: re::math::point::Point3<re::render::Model> = mk();
    let b: re::math::point::Point3<re::render::World> = mk();
    let _ = a - b;
}

pub fn p1310() {
    let a: re::math::point::Point3<re::render::Model> = mk();
    let b: re::math::angle::SphericalVec = mk();
    let _ = a + b;
}

pub fn p1311() {
    let a: re::math::point::Point3<re::render::Model> = mk();
    let b: re::math::angle::SphericalVec = mk();
    let _ = a + b.to_cart();
}

pub fn p1312() {
    let a: re::math::point::Point3<re::render::Model> = mk();
    let b: re::math::angle::SphericalVec = mk();
    let _ = a + b.into();
}

pub fn p1313() {
    let a: re::math::point::Point3<re::render::Model> = mk();
    let b: re::math::vec::Vec2<re::render::Model> = mk();
    let _ = a + b;
}

pub fn p1314() {
    let a: re::math::point::Point3<re::render::Model> = mk();
    let b: re::math::vec::Vec2<()> = mk();
    let _ = a + b;
}

pub fn p1315() {
    let a: re::math::point::Point3<re::render::Model> = mk();
    let b: re::math::vec::Vec2<re::render::World> = mk();
    let _ = a + b;
}

pub fn p1317() {
    let a: re::math::point::Point3<re::render::Model> = mk();
    let b: re::math::vec::Vec3<()> = mk();
    let _ = a + b;
}

pub fn p1318() {
    let a: re::math::point::Point3<re::render::Model> = mk();
    let b: re::math::vec::Vec3<re::render::World> = mk();
    let _ = a + b;
}

pub fn p1319() {
    let a: re::math::point::Point3<re::render::Model> = mk();
    let _ = [a.clone(), a].into_iter().sum::<re::math::point::Point3<re::render::Model>>();
}

pub fn p1320() {
    use re::geom::{Tri, Vertex};
    let vs = |_: Vertex<re::math::point::Point3<re::render::Model>, ()>, _: ()| -> Vertex<re::math::point::Point3<re::render::Model>, f32> { mk() };
    let fs = |_: re::render::raster::Frag<f32>| -> Option<re::math::color::Color4> { mk() };
    let sh = re::render::shader::Shader::new(vs, fs);
    let mut target: re::util::buf::Buf2<u32> = mk();
    let tris: Vec<Tri<usize>> = mk();
    let verts: Vec<Vertex<re::math::point::Point3<re::render::Model>, ()>> = mk();
    re::render::render(&tris, &verts, &sh, (), mk(), &mut target, &mk::<re::render::Context>());
}

pub fn p1321() {
    let a: re::math::point::Point3<()> = mk();
    let b: re::math::angle::PolarVec = mk();
    let _ = a + b;
}

pub fn p1322() {
    let a: re::math::point::Point3<()> = mk();
    let b: re::math::angle::PolarVec = mk();
    let _ = a + b.to_cart();
}

pub fn p1323() {
    let a: re::math::point::Point3<()> = mk();
    let b: re::math::angle::PolarVec = mk();
    let _ = a + b.into();
}

pub fn p1324() {
    let a: re::math::point::Point3<()> = mk();
    let b: re::math::point::Point2<re::render::Model> = mk();
    let _ = a + b;
}

pub fn p1325() {
    let a: re::math::point::Point3<()> = mk();
    let b: re::math::point::Point2<re::render::Model> = mk();
    let _ = re::math::Lerp::lerp(&a, &b, 0.5);
}

pub fn p1326() {
    let a: re::math::point::Point3<()> = mk();
    let b: re::math::point::Point2<re::render::Model> = mk();
    let _ = a - b;
}

pub fn p1327() {
    let a: re::math::point::Point3<()> = mk();
    let b: re::math::point::Point2<()> = mk();
    let _ = a + b;
}

pub fn p1328() {
    let a: re::math::point::Point3<()> = mk();
    let b: re::math::point::Point2<()> = mk();
    let _ = re::math::Lerp::lerp(&a, &b, 0.5);
}

pub fn p1329() {
    let a: re::math::point::Point3<()> = mk();
    let b: re::math::point::Point2<()> = mk();
    let _ = a - b;
}

pub fn p1330() {
    let a: re::math::point::Point3<()> = mk();
    let b: re::math::point::Point2<re::render::World> = mk();
    let _ = a + b;
}

pub fn p1331() {
    let a: re::math::point::Point3<()> = mk();
    let b: re::math::point::Point2<re::render::World> = mk();
    let _ = re::math::Lerp::lerp(&a, &b, 0.5);
}

pub fn p1332() {
    let a: re::math::point::Point3<()> = mk();
    let b: re::math::point::Point2<re::render::World> = mk();
    let _ = a - b;
}

pub fn p1333() {
    let a: re::math::point::Point3<()> = mk();
    let b: re::math::point::Point3<re::render::Model> = mk();
    let _r: re::math::point::Point3<re::render::Model> = a - b;
}

pub fn p1334() {
    let a: re::math::point::Point3<()> = mk();
    let b: re::math::point::Point3<re::render::Model> = mk();
    let c: re::math::point::Point3<re::render::Model> = mk();
    let d = re::math::space::Affine::sub(&a, &b);
    let _ = re::math::space::Affine::add(&c, &d);
}

pub fn p1335() {
    let a: re::math::point::Point3<()> = mk();
    let b: re::math::point::Point3<re::render::Model> = mk();
    let _r: re::math::point::Point3<()> = a - b;
}

pub fn p1336() {
    let a: re::math::point::Point3<()> = mk();
    let b: re::math::point::Point3<re::render::Model> = mk();
    let c: re::math::point::Point3<()> = mk();
    let d = re::math::space::Affine::sub(&a, &b);
    let _ = re::math::space::Affine::add(&c, &d);
}

pub fn p1337() {
    let a: re::math::point::Point3<()> = mk();
    let b: re::math::point::Point3<re::render::Model> = mk();
    let _r: re::math::point::Point3<re::render::World> = a - b;
}

pub fn p1338() {
    let a: re::math::point::Point3<()> = mk();
    let b: re::math::point::Point3<re::render::Model> = mk();
    let c: re::math::point::Point3<re::render::World> = mk();
    let d = re::math::space::Affine::sub(&a, &b);
    let _ = re::math::space::Affine::add(&c, &d);
}

pub fn p1339() {
    let a: re::math::point::Point3<()> = mk();
    let b: re::math::point::Point3<re::render::Model> = mk();
    let _r: re::math::vec::Vec3<re::render::Model> = a - b;
}

pub fn p1340() {
    let a: re::math::point::Point3<()> = mk();
    let b: re::math::point::Point3<re::render::Model> = mk();
    let _r: re::math::vec::Vec3<()> = a - b;
}

pub fn p1341() {
    let a: re::math::point::Point3<()> = mk();
    let b: re::math::point::Point3<re::render::Model> = mk();
    let _r: re::math::vec::Vec3<re::render::World> = a - b;
}

pub fn p1342() {
    let a: re::math::point::Point3<()> = mk();
    let b: re::math::point::Point3<re::render::Model> = mk();
    let _ = a + b;
}

pub fn p1343() {
    let a: re::math::point::Point3<()> = mk();
    let b: re::math::point::Point3<re::render::Model> = mk();
    let _ = re::math::Lerp::lerp(&a, &b, 0.5);
}

pub fn p1344() {
    let a: re::math::point::Point3<()> = mk();
    let b: re::math::point::Point3<re::render::Model> = mk();
    let _ = a - b;
}

pub fn p1345() {
    let a: re::math::point::Point3<()> = mk();
    let b: re::math::point::Point3<()> = mk();
    let _r: re::math::point::Point3<re::render::Model> = a - b;
}

pub fn p1346() {
    let a: re::math::point::Point3<()> = mk();
    let b: re::math::point::Point3<()> = mk();
    let c: re::math::point::Point3<re::render::Model> = mk();
    let d = re::math::space::Affine::sub(&a, &b);
    let _ = re::math::space::Affine::add(&c, &d);
}

pub fn p1347() {
    let a: re::math::point::Point3<()> = mk();
    let b: re::math::point::Point3<()> = mk();
    let _r: re::math::point::Point3<()> = a - b;
}

pub fn p1349() {
    let a: re::math::point::Point3<()> = mk();
    let b: re::math::point::Point3<()> = mk();
    let _r: re::math::point::Point3<re::render::World> = a - b;
}

pub fn p1350() {
    let a: re::math::point::Point3<()> = mk();
    let b: re::math::point::Point3<()> = mk();
    let c: re::math::point::Point3<re::render::World> = mk();
    let d = re::math::space::Affine::sub(&a, &b);
    let _ = re::math::space::Affine::add(&c, &d);
}

pub fn p1351() {
    let a: re::math::point::Point3<()> = mk();
    let b: re::math::point::Point3<()> = mk();
    let _r: re::math::vec::Vec3<re::render::Model> = a - b;
}

pub fn p1353() {
    let a: re::math::point::Point3<()> = mk();
    let b: re::math::point::Point3<()> = mk();
    let _r: re::math::vec::Vec3<re::render::World> = a - b;
}

pub fn p1354() {
    let a: re::math::point::Point3<()> = mk();
    let b: re::math::point::Point3<()> = mk();
    let _ = a + b;
}

pub fn p1357() {
    let a: re::math::point::Point3<()> = mk();
    let b: re::math::point::Point3<re::render::World> = mk();
    let _r: re::math::point::Point3<re::render::Model> = a - b;
}

pub fn p1358() {
    let a: re::math::point::Point3<()> = mk();
    let b: re::math::point::Point3<re::render::World> = mk();
    let c: re::math::point::Point3<re::render::Model> = mk();
    let d = re::math::space::Affine::sub(&a, &b);
    let _ = re::math::space::Affine::add(&c, &d);
}

pub fn p1359() {
    let a: re::math::point::Point3<()> = mk();
    let b: re::math::point::Point3<re::render::World> = mk();
    let _r: re::math::point::Point3<()> = a - b;
}

pub fn p1360() {
    let a: re::math::point::Point3<()> = mk();
    let b: re::math::point::Point3<re::render::World> = mk();
    let c: re::math::point::Point3<()> = mk();
    let d = re::math::space::Affine::sub(&a, &b);
    let _ = re::math::space::Affine::add(&c, &d);
}

pub fn p1361() {
    let a: re::math::point::Point3<()> = mk();
    let b: re::math::point::Point3<re::render::World> = mk();
    let _r: re::math::point::Point3<re::render::World> = a - b;
}

pub fn p1362() {
    let a: re::math::point::Point3<()> = mk();
    let b: re::math::point::Point3<re::render::World> = mk();
    let c: re::math::point::Point3<re::render::World> = mk();
    let d = re::math::space::Affine::sub(&a, &b);
    let _ = re::math::space::Affine::add(&c, &d);
}

pub fn p1363() {
    let a: re::math::point::Point3<()> = mk();
    let b: re::math::point::Point3<re::render::World> = mk();
    let _r: re::math::vec::Vec3<re::render::Model> = a - b;
}

pub fn p1364() {
    let a: re::math::point::Point3<()> = mk();
    let b: re::math::point::Point3<re::render::World> = mk();
    let _r: re::math::vec::Vec3<()> = a - b;
}

pub fn p1365() {
    let a: re::math::point::Point3<()> = mk();
    let b: re::math::point::Point3<re::render::World> = mk();
    let _r: re::math::vec::Vec3<re::render::World> = a - b;
}

pub fn p1366() {
    let a: re::math::point::Point3<()> = mk();
    let b: re::math::point::Point3<re::render::World> = mk();
    let _ = a + b;
}

pub fn p1367() {
    let a: re::math::point::Point3<()> = mk();
    let b: re::math::point::Point3<re::render::World> = mk();
    let _ = re::math::Lerp::lerp(&a, &b, 0.5);
}

pub fn p1368() {
    let a: re::math::point::Point3<()> = mk();
    let b: re::math::point::Point3<re::render::World> = mk();
    let _ = a - b;
}

pub fn p1369() {
    let a: re::math::point::Point3<()> = mk();
    let b: re::math::angle::SphericalVec = mk();
    let _ = a + b;
}

pub fn p1372() {
    let a: re::math::point::Point3<()> = mk();
    let b: re::math::vec::Vec2<re::render::Model> = mk();
    let _ = a + b;
}

pub fn p1373() {
    let a: re::math::point::Point3<()> = mk();
    let b: re::math::vec::Vec2<()> = mk();
    let _ = a + b;
}

pub fn p1374() {
    let a: re::math::point::Point3<()> = mk();
    let b: re::math::vec::Vec2<re::render::World> = mk();
    let _ = a + b;
}

pub fn p1375() {
    let a: re::math::point::Point3<()> = mk();
    let b: re::math::vec::Vec3<re::render::Model> = mk();
    let _ = a + b;
}

pub fn p1377() {
    let a: re::math::point::Point3<()> = mk();
    let b: re::math::vec::Vec3<re::render::World> = mk();
    let _ = a + b;
}

pub fn p1378() {
    let a: re::math::point::Point3<()> = mk();
    let _ = [a.clone(), a].into_iter().sum::<re::math::point::Point3<()>>();
}

pub fn p1379() {
    let a: re::math::point::Point3<re::render::World> = mk();
    let b: re::math::point::Point2<re::render::Model> = mk();
    let _ = a + b;
}

pub fn p1380() {
    let a: re::math::point::Point3<re::render::World> = mk();
    let b: re::math::point::Point2<re::render::Model> = mk();
    let _ = re::math::Lerp::lerp(&a, &b, 0.5);
}

pub fn p1381() {
    let a: re::math::point::Point3<re::render::World> = mk();
    let b: re::math::point::Point2<re::render::Model> = mk();
    let _ = a - b;
}

pub fn p1382() {
    let a: re::math::point::Point3<re::render::World> = mk();
    let b: re::math::point::Point2<()> = mk();
    let _ = a + b;
}

pub fn p1383() {
    let a: re::math::point::Point3<re::render::World> = mk();
    let b: re::math::point::Point2<()> = mk();
    let _ = re::math::Lerp::lerp(&a, &b, 0.5);
}

pub fn p1384() {
    let a: re::math::point::Point3<re::render::World> = mk();
    let b: re::math::point::Point2<()> = mk();
    let _ = a - b;
}

pub fn p1385() {
    let a: re::math::point::Point3<re::render::World> = mk();
    let b: re::math::point::Point2<re::render::World> = mk();
    let _ = a + b;
}

pub fn p1386() {
    let a: re::math::point::Point3<re::render::World> = mk();
    let b: re::math::point::Point2<re::render::World> = mk();
    let _ = re::math::Lerp::lerp(&a, &b, 0.5);
}

pub fn p1387() {
    let a: re::math::point::Point3<re::render::World> = mk();
    let b: re::math::point::Point2<re::render::World> = mk();
    let _ = a - b;
}

pub fn p1388() {
    let a: re::math::point::Point3<re::render::World> = mk();
    let b: re::math::point::Point3<re::render::Model> = mk();
    let _r: re::math::point::Point3<re::render::Model> = a - b;
}

pub fn p1389() {
    let a: re::math::point::Point3<re::render::World> = mk();
    let b: re::math::point::Point3<re::render::Model> = mk();
    let c: re::math::point::Point3<re::render::Model> = mk();
    let d = re::math::space::Affine::sub(&a, &b);
    let _ = re::math::space::Affine::add(&c, &d);
}

pub fn p1390() {
    let a: re::math::point::Point3<re::render::World> = mk();
    let b: re::math::point::Point3<re::render::Model> = mk();
    let _r: re::math::point::Point3<()> = a - b;
}

pub fn p1391() {
    let a: re::math::point::Point3<re::render::World> = mk();
    let b: re::math::point::Point3<re::render::Model> = mk();
    let c: re::math::point::Point3<()> = mk();
    let d = re::math::space::Affine::sub(&a, &b);
    let _ = re::math::space::Affine::add(&c, &d);
}

pub fn p1392() {
    let a: re::math::point::Point3<re::render::World> = mk();
    let b: re::math::point::Point3<re::render::Model> = mk();
    let _r: re::math::point::Point3<re::render::World> = a - b;
}

pub fn p1393() {
    let a: re::math::point::Point3<re::render::World> = mk();
    let b: re::math::point::Point3<re::render::Model> = mk();
    let c: re::math::point::Point3<re::render::World> = mk();
    let d = re::math::space::Affine::sub(&a, &b);
    let _ = re::math::space::Affine::add(&c, &d);
}

pub fn p1394() {
    let a: re::math::point::Point3<re::render::World> = mk();
    let b: re::math::point::Point3<re::render::Model> = mk();
    let _r: re::math::vec::Vec3<re::render::Model> = a - b;
}

pub fn p1395() {
    let a: re::math::point::Point3<re::render::World> = mk();
    let b: re::math::point::Point3<re::render::Model> = mk();
    let _r: re::math::vec::Vec3<()> = a - b;
}

pub fn p1396() {
    let a: re::math::point::Point3<re::render::World> = mk();
    let b: re::math::point::Point3<re::render::Model> = mk();
    let _r: re::math::vec::Vec3<re::render::World> = a - b;
}

pub fn p1397() {
    let a: re::math::point::Point3<re::render::World> = mk();
    let b: re::math::point::Point3<re::render::Model> = mk();
    let _ = a + b;
}

pub fn p1398() {
    let a: re::math::point::Point3<re::render::World> = mk();
    let b: re::math::point::Point3<re::render::Model> = mk();
    let _ = re::math::Lerp::lerp(&a, &b, 0.5);
}

pub fn p1399() {
    let a: re::math::point::Point3<re::render::World> = mk();
    let b: re::math::point::Point3<re::render::Model> = mk();
    let _ = a - b;
}

pub fn p1400() {
    let a: re::math::point::Point3<re::render::World> = mk();
    let b: re::math::point::Point3<()> = mk();
    let _r: re::math::point::Point3<re::render::Model> = a - b;
}

pub fn p1401() {
    let a: re::math::point::Point3<re::render::World> = mk();
    let b: re::math::point::Point3<()> = mk();
    let c: re::math::point::Point3<re::render::Model> = mk();
    let d = re::math::space::Affine::sub(&a, &b);
    let _ = re::math::space::Affine::add(&c, &d);
}

pub fn p1402() {
    let a: re::math::point::Point3<re::render::World> = mk();
    let b: re::math::point::Point3<()> = mk();
    let _r: re::math::point::Point3<()> = a - b;
}

pub fn p1403() {
    let a: re::math::point::Point3<re::render::World> = mk();
    let b: re::math::point::Point3<()> = mk();
    let c: re::math::point::Point3<()> = mk();
    let d = re::math::space::Affine::sub(&a, &b);
    let _ = re::math::space::Affine::add(&c, &d);
}

pub fn p1404() {
    let a: re::math::point::Point3<re::render::World> = mk();
    let b: re::math::point::Point3<()> = mk();
    let _r: re::math::point::Point3<re::render::World> = a - b;
}

pub fn p1405() {
    let a: re::math::point::Point3<re::render::World> = mk();
    let b: re::math::point::Point3<()> = mk();
    let c: re::math::point::Point3<re::render::World> = mk();
    let d = re::math::space::Affine::sub(&a, &b);
    let _ = re::math::space::Affine::add(&c, &d);
}

pub fn p1406() {
    let a: re::math::point::Point3<re::render::World> = mk();
    let b: re::math::point::Point3<()> = mk();
    let _r: re::math::vec::Vec3<re::render::Model> = a - b;
}

pub fn p1407() {
    let a: re::math::point::Point3<re::render::World> = mk();
    let b: re::math::point::Point3<()> = mk();
    let _r: re::math::vec::Vec3<()> = a - b;
}

pub fn p1408() {
    let a: re::math::point::Point3<re::render::World> = mk();
    let b: re::math::point::Point3<()> = mk();
    let _r: re::math::vec::Vec3<re::render::World> = a - b;
}

pub fn p1409() {
    let a: re::math::point::Point3<re::render::World> = mk();
    let b: re::math::point::Point3<()> = mk();
    let _ = a + b;
}

pub fn p1410() {
    let a: re::math::point::Point3<re::render::World> = mk();
    let b: re::math::point::Point3<()> = mk();
    let _ = re::math::Lerp::lerp(&a, &b, 0.5);
}

pub fn p1411() {
    let a: re::math::point::Point3<re::render::World> = mk();
    let b: re::math::point::Point3<()> = mk();
    let _ = a - b;
}

pub fn p1412() {
    let a: re::math::point::Point3<re::render::World> = mk();
    let b: re::math::point::Point3<re::render::World> = mk();
    let _r: re::math::point::Point3<re::render::Model> = a - b;
}

pub fn p1413() {
    let a: re::math::point::Point3<re::render::World> = mk();
    let b: re::math::point::Point3<re::render::World> = mk();
    let c: re::math::point::Point3<re::render::Model> = mk();
    let d = re::math::space::Affine::sub(&a, &b);
    let _ = re::math::space::Affine::add(&c, &d);
}

pub fn p1414() {
    let a: re::math::point::Point3<re::render::World> = mk();
    let b: re::math::point::Point3<re::render::World> = mk();
    let _r: re::math::point::Point3<()> = a - b;
}

pub fn p1415() {
    let a: re::math::point::Point3<re::render::World> = mk();
    let b: re::math::point::Point3<re::render::World> = mk();
    let c: re::math::point::Point3<()> = mk();
    let d = re::math::space::Affine::sub(&a, &b);
    let _ = re::math::space::Affine::add(&c, &d);
}

pub fn p1416() {
    let a: re::math::point::Point3<re::render::World> = mk();
    let b: re::math::point::Point3<re::render::World> = mk();
    let _r: re::math::point::Point3<re::render::World> = a - b;
}

pub fn p1418() {
    let a: re::math::point::Point3<re::render::World> = mk();
    let b: re::math::point::Point3<re::render::World> = mk();
    let _r: re::math::vec::Vec3<re::render::Model> = a - b;
}

pub fn p1419() {
    let a: re::math::point::Point3<re::render::World> = mk();
    let b: re::math::point::Point3<re::render::World> = mk();
    let _r: re::math::vec::Vec3<()> = a - b;
}

pub fn p1421() {
    let a: re::math::point::Point3<re::render::World> = mk();
    let b: re::math::point::Point3<re::render::World> = mk();
    let _ = a + b;
}

pub fn p1424() {
    let a: re::math::point::Point3<re::render::World> = mk();
    let b: re::math::vec::Vec2<re::render::Model> = mk();
    let _ = a + b;
}

pub fn p1425() {
    let a: re::math::point::Point3<re::render::World> = mk();
    let b: re::math::vec::Vec2<()> = mk();
    let _ = a + b;
}

pub fn p1426() {
    let a: re::math::point::Point3<re::render::World> = mk();
    let b: re::math::vec::Vec2<re::render::World> = mk();
    let _ = a + b;
}

pub fn p1427() {
    let a: re::math::point::Point3<re::render::World> = mk();
    let b: re::math::vec::Vec3<re::render::Model> = mk();
    let _ = a + b;
}

pub fn p1428() {
    let a: re::math::point::Point3<re::render::World> = mk();
    let b: re::math::vec::Vec3<()> = mk();
    let _ = a + b;
}

pub fn p1430() {
    let a: re::math::point::Point3<re::render::World> = mk();
    let _ = [a.clone(), a].into_iter().sum::<re::math::point::Point3<re::render::World>>();
}

pub fn p1431() {
    let a: re::math::vec::Vec2<re::render::Model> = mk();
    let b: re::math::angle::PolarVec = mk();
    let _ = a + b;
}

pub fn p1432() {
    let a: re::math::vec::Vec2<re::render::Model> = mk();
    let b: re::math::angle::PolarVec = mk();
    let _ = a + b.to_cart();
}

pub fn p1433() {
    let a: re::math::vec::Vec2<re::render::Model> = mk();
    let b: re::math::angle::PolarVec = mk();
    let _ = a + b.into();
}

pub fn p1434() {
    let a: re::math::vec::Vec2<re::render::Model> = mk();
    let b: re::math::point::Point2<re::render::Model> = mk();
    let _ = re::math::Lerp::lerp(&a, &b, 0.5);
}

pub fn p1435() {
    let a: re::math::vec::Vec2<re::render::Model> = mk();
    let b: re::math::point::Point2<()> = mk();
    let _ = re::math::Lerp::lerp(&a, &b, 0.5);
}

pub fn p1436() {
    let a: re::math::vec::Vec2<re::render::Model> = mk();
    let b: re::math::point::Point2<re::render::World> = mk();
    let _ = re::math::Lerp::lerp(&a, &b, 0.5);
}

pub fn p1437() {
    let a: re::math::vec::Vec2<re::render::Model> = mk();
    let b: re::math::point::Point3<re::render::Model> = mk();
    let _ = re::math::Lerp::lerp(&a, &b, 0.5);
}

pub fn p1438() {
    let a: re::math::vec::Vec2<re::render::Model> = mk();
    let b: re::math::point::Point3<()> = mk();
    let _ = re::math::Lerp::lerp(&a, &b, 0.5);
}

pub fn p1439() {
    let a: re::math::vec::Vec2<re::render::Model> = mk();
    let b: re::math::point::Point3<re::render::World> = mk();
    let _ = re::math::Lerp::lerp(&a, &b, 0.5);
}

pub fn p1440() {
    let a: re::math::vec::Vec2<re::render::Model> = mk();
    let b: re::math::angle::SphericalVec = mk();
    let _ = a + b;
}

pub fn p1441() {
    let a: re::math::vec::Vec2<re::render::Model> = mk();
    let b: re::math::angle::SphericalVec = mk();
    let _ = a + b.to_cart();
}

pub fn p1442() {
    let a: re::math::vec::Vec2<re::render::Model> = mk();
    let b: re::math::angle::SphericalVec = mk();
    let _ = a + b.into();
}

pub fn p1447() {
    let a: re::math::vec::Vec2<re::render::Model> = mk();
    let b: re::math::vec::Vec2<()> = mk();
    let _ = a + b;
}

pub fn p1448() {
    let a: re::math::vec::Vec2<re::render::Model> = mk();
    let b: re::math::vec::Vec2<()> = mk();
    let _ = a.dot(&b);
}

pub fn p1449() {
    let a: re::math::vec::Vec2<re::render::Model> = mk();
    let b: re::math::vec::Vec2<()> = mk();
    let _ = re::math::Lerp::lerp(&a, &b, 0.5);
}

pub fn p1450() {
    let a: re::math::vec::Vec2<re::render::Model> = mk();
    let b: re::math::vec::Vec2<()> = mk();
    let _ = a - b;
}

pub fn p1451() {
    let a: re::math::vec::Vec2<re::render::Model> = mk();
    let b: re::math::vec::Vec2<re::render::World> = mk();
    let _ = a + b;
}

pub fn p1452() {
    let a: re::math::vec::Vec2<re::render::Model> = mk();
    let b: re::math::vec::Vec2<re::render::World> = mk();
    let _ = a.dot(&b);
}

pub fn p1453() {
    let a: re::math::vec::Vec2<re::render::Model> = mk();
    let b: re::math::vec::Vec2<re::render::World> = mk();
    let _ = re::math::Lerp::lerp(&a, &b, 0.5);
}

pub fn p1454() {
    let a: re::math::vec::Vec2<re::render::Model> = mk();
    let b: re::math::vec::Vec2<re::render::World> = mk();
    let _ = a - b;
}

pub fn p1455() {
    let a: re::math::vec::Vec2<re::render::Model> = mk();
    let b: re::math::vec::Vec3<re::render::Model> = mk();
    let _ = a + b;
}

pub fn p1456() {
    let a: re::math::vec::Vec2<re::render::Model> = mk();
    let b: re::math::vec::Vec3<re::render::Model> = mk();
    let _ = a.dot(&b);
}

pub fn p1457() {
    let a: re::math::vec::Vec2<re::render::Model> = mk();
    let b: re::math::vec::Vec3<re::render::Model> = mk();
    let _ = re::math::Lerp::lerp(&a, &b, 0.5);
}

pub fn p1458() {
    let a: re::math::vec::Vec2<re::render::Model> = mk();
    let b: re::math::vec::Vec3<re::render::Model> = mk();
    let _ = a - b;
}

pub fn p1459() {
    let a: re::math::vec::Vec2<re::render::Model> = mk();
    let b: re::math::vec::Vec3<()> = mk();
    let _ = a + b;
}

pub fn p1460() {
    let a: re::math::vec::Vec2<re::render::Model> = mk();
    let b: re::math::vec::Vec3<()> = mk();
    let _ = a.dot(&b);
}

pub fn p1461() {
    let a: re::math::vec::Vec2<re::render::Model> = mk();
    let b: re::math::vec::Vec3<()> = mk();
    let _ = re::math::Lerp::lerp(&a, &b, 0.5);
}

pub fn p1462() {
    let a: re::math::vec::Vec2<re::render::Model> = mk();
    let b: re::math::vec::Vec3<()> = mk();
    let _ = a - b;
}

pub fn p1463() {
    let a: re::math::vec::Vec2<re::render::Model> = mk();
    let b: re::math::vec::Vec3<re::render::World> = mk();
    let _ = a + b;
}

pub fn p1464() {
    let a: re::math::vec::Vec2<re::render::Model> = mk();
    let b: re::math::vec::Vec3<re::render::World> = mk();
    let _ = a.dot(&b);
}

pub fn p1465() {
    let a: re::math::vec::Vec2<re::render::Model> = mk();
    let b: re::math::vec::Vec3<re::render::World> = mk();
    let _ = re::math::Lerp::lerp(&a, &b, 0.5);
}

pub fn p1466() {
    let a: re::math::vec::Vec2<re::render::Model> = mk();
    let b: re::math::vec::Vec3<re::render::World> = mk();
    let _ = a - b;
}

pub fn p1468() {
    let a: re::math::vec::Vec2<()> = mk();
    let b: re::math::angle::PolarVec = mk();
    let _ = a + b;
}

pub fn p1471() {
    let a: re::math::vec::Vec2<()> = mk();
    let b: re::math::point::Point2<re::render::Model> = mk();
    let _ = re::math::Lerp::lerp(&a, &b, 0.5);
}

pub fn p1472() {
    let a: re::math::vec::Vec2<()> = mk();
    let b: re::math::point::Point2<()> = mk();
    let _ = re::math::Lerp::lerp(&a, &b, 0.5);
}

pub fn p1473() {
    let a: re::math::vec::Vec2<()> = mk();
    let b: re::math::point::Point2<re::render::World> = mk();
    let _ = re::math::Lerp::lerp(&a, &b, 0.5);
}

pub fn p1474() {
    let a: re::math::vec::Vec2<()> = mk();
    let b: re::math::point::Point3<re::render::Model> = mk();
    let _ = re::math::Lerp::lerp(&a, &b, 0.5);
}

pub fn p1475() {
    let a: re::math::vec::Vec2<()> = mk();
    let b: re::math::point::Point3<()> = mk();
    let _ = re::math::Lerp::lerp(&a, &b, 0.5);
}

pub fn p1476() {
    let a: re::math::vec::Vec2<()> = mk();
    let b: re::math::point::Point3<re::render::World> = mk();
    let _ = re::math::Lerp::lerp(&a, &b, 0.5);
}

pub fn p1477() {
    let a: re::math::vec::Vec2<()> = mk();
    let b: re::math::angle::SphericalVec = mk();
    let _ = a + b;
}

pub fn p1478() {
    let a: re::math::vec::Vec2<()> = mk();
    let b: re::math::angle::SphericalVec = mk();
    let _ = a + b.to_cart();
}

pub fn p1479() {
    let a: re::math::vec::Vec2<()> = mk();
    let b: re::math::angle::SphericalVec = mk();
    let _ = a + b.into();
}

pub fn p1480() {
    let a: re::math::vec::Vec2<()> = mk();
    let b: re::math::vec::Vec2<re::render::Model> = mk();
    let _ = a + b;
}

pub fn p1481() {
    let a: re::math::vec::Vec2<()> = mk();
    let b: re::math::vec::Vec2<re::render::Model> = mk();
    let _ = a.dot(&b);
}

pub fn p1482() {
    let a: re::math::vec::Vec2<()> = mk();
    let b: re::math::vec::Vec2<re::render::Model> = mk();
    let _ = re::math::Lerp::lerp(&a, &b, 0.5);
}

pub fn p1483() {
    let a: re::math::vec::Vec2<()> = mk();
    let b: re::math::vec::Vec2<re::render::Model> = mk();
    let _ = a - b;
}

pub fn p1488() {
    let a: re::math::vec::Vec2<()> = mk();
    let b: re::math::vec::Vec2<re::render::World> = mk();
    let _ = a + b;
}

pub fn p1489() {
    let a: re::math::vec::Vec2<()> = mk();
    let b: re::math::vec::Vec2<re::render::World> = mk();
    let _ = a.dot(&b);
}

pub fn p1490() {
    let a: re::math::vec::Vec2<()> = mk();
    let b: re::math::vec::Vec2<re::render::World> = mk();
    let _ = re::math::Lerp::lerp(&a, &b, 0.5);
}

pub fn p1491() {
    let a: re::math::vec::Vec2<()> = mk();
    let b: re::math::vec::Vec2<re::render::World> = mk();
    let _ = a - b;
}

pub fn p1492() {
    let a: re::math::vec::Vec2<()> = mk();
    let b: re::math::vec::Vec3<re::render::Model> = mk();
    let _ = a + b;
}

pub fn p1493() {
    let a: re::math::vec::Vec2<()> = mk();
    let b: re::math::vec::Vec3<re::render::Model> = mk();
    let _ = a.dot(&b);
}

pub fn p1494() {
    let a: re::math::vec::Vec2<()> = mk();
    let b: re::math::vec::Vec3<re::render::Model> = mk();
    let _ = re::math::Lerp::lerp(&a, &b, 0.5);
}

pub fn p1495() {
    let a: re::math::vec::Vec2<()> = mk();
    let b: re::math::vec::Vec3<re::render::Model> = mk();
    let _ = a - b;
}

pub fn p1496() {
    let a: re::math::vec::Vec2<()> = mk();
    let b: re::math::vec::Vec3<()> = mk();
    let _ = a + b;
}

pub fn p1497() {
    let a: re::math::vec::Vec2<()> = mk();
    let b: re::math::vec::Vec3<()> = mk();
    let _ = a.dot(&b);
}

pub fn p1498() {
    let a: re::math::vec::Vec2<()> = mk();
    let b: re::math::vec::Vec3<()> = mk();
    let _ = re::math::Lerp::lerp(&a, &b, 0.5);
}

pub fn p1499() {
    let a: re::math::vec::Vec2<()> = mk();
    let b: re::math::vec::Vec3<()> = mk();
    let _ = a - b;
}

pub fn p1500() {
    let a: re::math::vec::Vec2<()> = mk();
    let b: re::math::vec::Vec3<re::render::World> = mk();
    let _ = a + b;
}

pub fn p1501() {
    let a: re::math::vec::Vec2<()> = mk();
    let b: re::math::vec::Vec3<re::render::World> = mk();
    let _ = a.dot(&b);
}

pub fn p1502() {
    let a: re::math::vec::Vec2<()> = mk();
    let b: re::math::vec::Vec3<re::render::World> = mk();
    let _ = re::math::Lerp::lerp(&a, &b, 0.5);
}

pub fn p1503() {
    let a: re::math::vec::Vec2<()> = mk();
    let b: re::math::vec::Vec3<re::render::World> = mk();
    let _ = a - b;
}

pub fn p1505() {
    let a: re::math::vec::Vec2<re::render::World> = mk();
    let b: re::math::point::Point2<re::render::Model> = mk();
    let _ = re::math::Lerp::lerp(&a, &b, 0.5);
}

pub fn p1506() {
    let a: re::math::vec::Vec2<re::render::World> = mk();
    let b: re::math::point::Point2<()> = mk();
    let _ = re::math::Lerp::lerp(&a, &b, 0.5);
}

pub fn p1507() {
    let a: re::math::vec::Vec2<re::render::World> = mk();
    let b: re::math::point::Point2<re::render::World> = mk();
    let _ = re::math::Lerp::lerp(&a, &b, 0.5);
}

pub fn p1508() {
    let a: re::math::vec::Vec2<re::render::World> = mk();
    let b: re::math::point::Point3<re::render::Model> = mk();
    let _ = re::math::Lerp::lerp(&a, &b, 0.5);
}

pub fn p1509() {
    let a: re::math::vec::Vec2<re::render::World> = mk();
    let b: re::math::point::Point3<()> = mk();
    let _ = re::math::Lerp::lerp(&a, &b, 0.5);
}

pub fn p1510() {
    let a: re::math::vec::Vec2<re::render::World> = mk();
    let b: re::math::point::Point3<re::render::World> = mk();
    let _ = re::math::Lerp::lerp(&a, &b, 0.5);
}

pub fn p1511() {
    let a: re::math::vec::Vec2<re::render::World> = mk();
    let b: re::math::vec::Vec2<re::render::Model> = mk();
    let _ = a + b;
}

pub fn p1512() {
    let a: re::math::vec::Vec2<re::render::World> = mk();
    let b: re::math::vec::Vec2<re::render::Model> = mk();
    let _ = a.dot(&b);
}

pub fn p1513() {
    let a: re::math::vec::Vec2<re::render::World> = mk();
    let b: re::math::vec::Vec2<re::render::Model> = mk();
    let _ = re::math::Lerp::lerp(&a, &b, 0.5);
}

pub fn p1514() {
    let a: re::math::vec::Vec2<re::render::World> = mk();
    let b: re::math::vec::Vec2<re::render::Model> = mk();
    let _ = a - b;
}

pub fn p1515() {
    let a: re::math::vec::Vec2<re::render::World> = mk();
    let b: re::math::vec::Vec2<()> = mk();
    let _ = a + b;
}

pub fn p1516() {
    let a: re::math::vec::Vec2<re::render::World> = mk();
    let b: re::math::vec::Vec2<()> = mk();
    let _ = a.dot(&b);
}

pub fn p1517() {
    let a: re::math::vec::Vec2<re::render::World> = mk();
    let b: re::math::vec::Vec2<()> = mk();
    let _ = re::math::Lerp::lerp(&a, &b, 0.5);
}

pub fn p1518() {
    let a: re::math::vec::Vec2<re::render::World> = mk();
    let b: re::math::vec::Vec2<()> = mk();
    let _ = a - b;
}

pub fn p1523() {
    let a: re::math::vec::Vec2<re::render::World> = mk();
    let b: re::math::vec::Vec3<re::render::Model> = mk();
    let _ = a + b;
}

pub fn p1524() {
    let a: re::math::vec::Vec2<re::render::World> = mk();
    let b: re::math::vec::Vec3<re::render::Model> = mk();
    let _ = a.dot(&b);
}

pub fn p1525() {
    let a: re::math::vec::Vec2<re::render::World> = mk();
    let b: re::math::vec::Vec3<re::render::Model> = mk();
    let _ = re::math::Lerp::lerp(&a, &b, 0.5);
}

pub fn p1526() {
    let a: re::math::vec::Vec2<re::render::World> = mk();
    let b: re::math::vec::Vec3<re::render::Model> = mk();
    let _ = a - b;
}

pub fn p1527() {
    let a: re::math::vec::Vec2<re::render::World> = mk();
    let b: re::math::vec::Vec3<()> = mk();
    let _ = a + b;
}

pub fn p1528() {
    let a: re::math::vec::Vec2<re::render::World> = mk();
    let b: re::math::vec::Vec3<()> = mk();
    let _ = a.dot(&b);
}

pub fn p1529() {
    let a: re::math::vec::Vec2<re::render::World> = mk();
    let b: re::math::vec::Vec3<()> = mk();
    let _ = re::math::Lerp::lerp(&a, &b, 0.5);
}

pub fn p1530() {
    let a: re::math::vec::Vec2<re::render::World> = mk();
    let b: re::math::vec::Vec3<()> = mk();
    let _ = a - b;
}

pub fn p1531() {
    let a: re::math::vec::Vec2<re::render::World> = mk();
    let b: re::math::vec::Vec3<re::render::World> = mk();
    let _ = a + b;
}

pub fn p1532() {
    let a: re::math::vec::Vec2<re::render::World> = mk();
    let b: re::math::vec::Vec3<re::render::World> = mk();
    let _ = a.dot(&b);
}

pub fn p1533() {
    let a: re::math::vec::Vec2<re::render::World> = mk();
    let b: re::math::vec::Vec3<re::render::World> = mk();
    let _ = re::math::Lerp::lerp(&a, &b, 0.5);
}

pub fn p1534() {
    let a: re::math::vec::Vec2<re::render::World> = mk();
    let b: re::math::vec::Vec3<re::render::World> = mk();
    let _ = a - b;
}

pub fn p1536() {
    let a: re::math::vec::Vec3<re::render::Model> = mk();
    let b: re::math::angle::PolarVec = mk();
    let _ = a + b;
}

pub fn p1537() {
    let a: re::math::vec::Vec3<re::render::Model> = mk();
    let b: re::math::angle::PolarVec = mk();
    let _ = a + b.to_cart();
}

pub fn p1538() {
    let a: re::math::vec::Vec3<re::render::Model> = mk();
    let b: re::math::angle::PolarVec = mk();
    let _ = a + b.into();
}

pub fn p1539() {
    let a: re::math::vec::Vec3<re::render::Model> = mk();
    let b: re::math::point::Point2<re::render::Model> = mk();
    let _ = re::math::Lerp::lerp(&a, &b, 0.5);
}

pub fn p1540() {
    let a: re::math::vec::Vec3<re::render::Model> = mk();
    let b: re::math::point::Point2<()> = mk();
    let _ = re::math::Lerp::lerp(&a, &b, 0.5);
}

pub fn p1541() {
    let a: re::math::vec::Vec3<re::render::Model> = mk();
    let b: re::math::point::Point2<re::render::World> = mk();
    let _ = re::math::Lerp::lerp(&a, &b, 0.5);
}

pub fn p1542() {
    let a: re::math::vec::Vec3<re::render::Model> = mk();
    let b: re::math::point::Point3<re::render::Model> = mk();
    let _ = re::math::Lerp::lerp(&a, &b, 0.5);
}

pub fn p1543() {
    let a: re::math::vec::Vec3<re::render::Model> = mk();
    let b: re::math::point::Point3<()> = mk();
    let _ = re::math::Lerp::lerp(&a, &b, 0.5);
}

pub fn p1544() {
    let a: re::math::vec::Vec3<re::render::Model> = mk();
    let b: re::math::point::Point3<re::render::World> = mk();
    let _ = re::math::Lerp::lerp(&a, &b, 0.5);
}

pub fn p1545() {
    let a: re::math::vec::Vec3<re::render::Model> = mk();
    let b: re::math::angle::SphericalVec = mk();
    let _ = a + b;
}

pub fn p1546() {
    let a: re::math::vec::Vec3<re::render::Model> = mk();
    let b: re::math::angle::SphericalVec = mk();
    let _ = a + b.to_cart();
}

pub fn p1547() {
    let a: re::math::vec::Vec3<re::render::Model> = mk();
    let b: re::math::angle::SphericalVec = mk();
    let _ = a + b.into();
}

pub fn p1548() {
    let a: re::math::vec::Vec3<re::render::Model> = mk();
    let b: re::math::vec::Vec2<re::render::Model> = mk();
    let _ = a + b;
}

pub fn p1549() {
    let a: re::math::vec::Vec3<re::render::Model> = mk();
    let b: re::math::vec::Vec2<re::render::Model> = mk();
    let _ = a.dot(&b);
}

pub fn p1550() {
    let a: re::math::vec::Vec3<re::render::Model> = mk();
    let b: re::math::vec::Vec2<re::render::Model> = mk();
    let _ = re::math::Lerp::lerp(&a, &b, 0.5);
}

pub fn p1551() {
    let a: re::math::vec::Vec3<re::render::Model> = mk();
    let b: re::math::vec::Vec2<re::render::Model> = mk();
    let _ = a - b;
}

pub fn p1552() {
    let a: re::math::vec::Vec3<re::render::Model> = mk();
    let b: re::math::vec::Vec2<()> = mk();
    let _ = a + b;
}

pub fn p1553() {
    let a: re::math::vec::Vec3<re::render::Model> = mk();
    let b: re::math::vec::Vec2<()> = mk();
    let _ = a.dot(&b);
}

pub fn p1554() {
    let a: re::math::vec::Vec3<re::render::Model> = mk();
    let b: re::math::vec::Vec2<()> = mk();
    let _ = re::math::Lerp::lerp(&a, &b, 0.5);
}

pub fn p1555() {
    let a: re::math::vec::Vec3<re::render::Model> = mk();
    let b: re::math::vec::Vec2<()> = mk();
    let _ = a - b;
}

pub fn p1556() {
    let a: re::math::vec::Vec3<re::render::Model> = mk();
    let b: re::math::vec::Vec2<re::render::World> = mk();
    let _ = a + b;
}

pub fn p1557() {
    let a: re::math::vec::Vec3<re::render::Model> = mk();
    let b: re::math::vec::Vec2<re::render::World> = mk();
    let _ = a.dot(&b);
}

pub fn p1558() {
    let a: re::math::vec::Vec3<re::render::Model> = mk();
    let b: re::math::vec::Vec2<re::render::World> = mk();
    let _ = re::math::Lerp::lerp(&a, &b, 0.5);
}

pub fn p1559() {
    let a: re::math::vec::Vec3<re::render::Model> = mk();
    let b: re::math::vec::Vec2<re::render::World> = mk();
    let _ = a - b;
}

pub fn p1564() {
    let a: re::math::vec::Vec3<re::render::Model> = mk();
    let b: re::math::vec::Vec3<()> = mk();
    let _ = a + b;
}

pub fn p1565() {
    let a: re::math::vec::Vec3<re::render::Model> = mk();
    let b: re::math::vec::Vec3<()> = mk();
    let _ = a.dot(&b);
}

pub fn p1566() {
    let a: re::math::vec::Vec3<re::render::Model> = mk();
    let b: re::math::vec::Vec3<()> = mk();
    let _ = re::math::Lerp::lerp(&a, &b, 0.5);
}

pub fn p1567() {
    let a: re::math::vec::Vec3<re::render::Model> = mk();
    let b: re::math::vec::Vec3<()> = mk();
    let _ = a - b;
}

pub fn p1568() {
    let a: re::math::vec::Vec3<re::render::Model> = mk();
    let b: re::math::vec::Vec3<re::render::World> = mk();
    let _ = a + b;
}

pub fn p1569() {
    let a: re::math::vec::Vec3<re::render::Model> = mk();
    let b: re::math::vec::Vec3<re::render::World> = mk();
    let _ = a.dot(&b);
}

pub fn p1570() {
    let a: re::math::vec::Vec3<re::render::Model> = mk();
    let b: re::math::vec::Vec3<re::render::World> = mk();
    let _ = re::math::Lerp::lerp(&a, &b, 0.5);
}

pub fn p1571() {
    let a: re::math::vec::Vec3<re::render::Model> = mk();
    let b: re::math::vec::Vec3<re::render::World> = mk();
    let _ = a - b;
}

pub fn p1573() {
    use re::geom::{Tri, Vertex};
    let vs = |_: Vertex<re::math::point::Point3<re::render::Model>, ()>, _: ()| -> Vertex<re::math::vec::Vec3<re::render::Model>, f32> { mk() };
    let fs = |_: re::render::raster::Frag<f32>| -> Option<re::math::color::Color4> { mk() };
    let sh = re::render::shader::Shader::new(vs, fs);
    let mut target: re::util::buf::Buf2<u32> = mk();
    let tris: Vec<Tri<usize>> = mk();
    let verts: Vec<Vertex<re::math::point::Point3<re::render::Model>, ()>> = mk();
    re::render::render(&tris, &verts, &sh, (), mk(), &mut target, &mk::<re::render::Context>());
}

pub fn p1574() {
    let a: re::math::vec::Vec3<()> = mk();
    let b: re::math::angle::PolarVec = mk();
    let _ = a + b;
}

pub fn p1575() {
    let a: re::math::vec::Vec3<()> = mk();
    let b: re::math::angle::PolarVec = mk();
    let _ = a + b.to_cart();
}

pub fn p1576() {
    let a: re::math::vec::Vec3<()> = mk();
    let b: re::math::angle::PolarVec = mk();
    let _ = a + b.into();
}

pub fn p1577() {
    let a: re::math::vec::Vec3<()> = mk();
    let b: re::math::point::Point2<re::render::Model> = mk();
    let _ = re::math::Lerp::lerp(&a, &b, 0.5);
}

pub fn p1578() {
    let a: re::math::vec::Vec3<()> = mk();
    let b: re::math::point::Point2<()> = mk();
    let _ = re::math::Lerp::lerp(&a, &b, 0.5);
}

pub fn p1579() {
    let a: re::math::vec::Vec3<()> = mk();
    let b: re::math::point::Point2<re::render::World> = mk();
    let _ = re::math::Lerp::lerp(&a, &b, 0.5);
}

pub fn p1580() {
    let a: re::math::vec::Vec3<()> = mk();
    let b: re::math::point::Point3<re::render::Model> = mk();
    let _ = re::math::Lerp::lerp(&a, &b, 0.5);
}

pub fn p1581() {
    let a: re::math::vec::Vec3<()> = mk();
    let b: re::math::point::Point3<()> = mk();
    let _ = re::math::Lerp::lerp(&a, &b, 0.5);
}

pub fn p1582() {
    let a: re::math::vec::Vec3<()> = mk();
    let b: re::math::point::Point3<re::render::World> = mk();
    let _ = re::math::Lerp::lerp(&a, &b, 0.5);
}

pub fn p1583() {
    let a: re::math::vec::Vec3<()> = mk();
    let b: re::math::angle::SphericalVec = mk();
    let _ = a + b;
}

pub fn p1586() {
    let a: re::math::vec::Vec3<()> = mk();
    let b: re::math::vec::Vec2<re::render::Model> = mk();
    let _ = a + b;
}

pub fn p1587() {
    let a: re::math::vec::Vec3<()> = mk();
    let b: re::math::vec::Vec2<re::render::Model> = mk();
    let _ = a.dot(&b);
}

pub fn p1588() {
    let a: re::math::vec::Vec3<()> = mk();
    let b: re::math::vec::Vec2<re::render::Model> = mk();
    let _ = re::math::Lerp::lerp(&a, &b, 0.5);
}

pub fn p1589() {
    let a: re::math::vec::Vec3<()> = mk();
    let b: re::math::vec::Vec2<re::render::Model> = mk();
    let _ = a - b;
}

pub fn p1590() {
    let a: re::math::vec::Vec3<()> = mk();
    let b: re::math::vec::Vec2<()> = mk();
    let _ = a + b;
}

pub fn p1591() {
    let a: re::math::vec::Vec3<()> = mk();
    let b: re::math::vec::Vec2<()> = mk();
    let _ = a.dot(&b);
}

pub fn p1592() {
    let a: re::math::vec::Vec3<()> = mk();
    let b: re::math::vec::Vec2<()> = mk();
    let _ = re::math::Lerp::lerp(&a, &b, 0.5);
}

pub fn p1593() {
    let a: re::math::vec::Vec3<()> = mk();
    let b: re::math::vec::Vec2<()> = mk();
    let _ = a - b;
}

pub fn p1594() {
    let a: re::math::vec::Vec3<()> = mk();
    let b: re::math::vec::Vec2<re::render::World> = mk();
    let _ = a + b;
}

pub fn p1595() {
    let a: re::math::vec::Vec3<()> = mk();
    let b: re::math::vec::Vec2<re::render::World> = mk();
    let _ = a.dot(&b);
}

pub fn p1596() {
    let a: re::math::vec::Vec3<()> = mk();
    let b: re::math::vec::Vec2<re::render::World> = mk();
    let _ = re::math::Lerp::lerp(&a, &b, 0.5);
}

pub fn p1597() {
    let a: re::math::vec::Vec3<()> = mk();
    let b: re::math::vec::Vec2<re::render::World> = mk();
    let _ = a - b;
}

pub fn p1598() {
    let a: re::math::vec::Vec3<()> = mk();
    let b: re::math::vec::Vec3<re::render::Model> = mk();
    let _ = a + b;
}

pub fn p1599() {
    let a: re::math::vec::Vec3<()> = mk();
    let b: re::math::vec::Vec3<re::render::Model> = mk();
    let _ = a.dot(&b);
}

pub fn p1600() {
    let a: re::math::vec::Vec3<()> = mk();
    let b: re::math::vec::Vec3<re::render::Model> = mk();
    let _ = re::math::Lerp::lerp(&a, &b, 0.5);
}

pub fn p1601() {
    let a: re::math::vec::Vec3<()> = mk();
    let b: re::math::vec::Vec3<re::render::Model> = mk();
    let _ = a - b;
}

pub fn p1606() {
    let a: re::math::vec::Vec3<()> = mk();
    let b: re::math::vec::Vec3<re::render::World> = mk();
    let _ = a + b;
}

pub fn p1607() {
    let a: re::math::vec::Vec3<()> = mk();
    let b: re::math::vec::Vec3<re::render::World> = mk();
    let _ = a.dot(&b);
}

pub fn p1608() {
    let a: re::math::vec::Vec3<()> = mk();
    let b: re::math::vec::Vec3<re::render::World> = mk();
    let _ = re::math::Lerp::lerp(&a, &b, 0.5);
}

pub fn p1609() {
    let a: re::math::vec::Vec3<()> = mk();
    let b: re::math::vec::Vec3<re::render::World> = mk();
    let _ = a - b;
}

pub fn p1615() {
    let a: re::math::vec::Vec3<crate::UserTag> = mk();
    let b: re::math::vec::Vec3<re::render::World> = mk();
    let _ = a + b;
}

pub fn p1616() {
    let a: re::math::vec::Vec3<crate::UserTag> = mk();
    let b: re::math::vec::Vec3<re::render::World> = mk();
    let _ = a.dot(&b);
}

pub fn p1617() {
    let a: re::math::vec::Vec3<crate::UserTag> = mk();
    let b: re::math::vec::Vec3<re::render::World> = mk();
    let _ = re::math::Lerp::lerp(&a, &b, 0.5);
}

pub fn p1618() {
    let a: re::math::vec::Vec3<crate::UserTag> = mk();
    let b: re::math::vec::Vec3<re::render::World> = mk();
    let _ = a - b;
}

pub fn p1619() {
    let a: re::math::vec::Vec3<re::render::World> = mk();
    let b: re::math::point::Point2<re::render::Model> = mk();
    let _ = re::math::Lerp::lerp(&a, &b, 0.5);
}

pub fn p1620() {
    let a: re::math::vec::Vec3<re::render::World> = mk();
    let b: re::math::point::Point2<()> = mk();
    let _ = re::math::Lerp::lerp(&a, &b, 0.5);
}

pub fn p1621() {
    let a: re::math::vec::Vec3<re::render::World> = mk();
    let b: re::math::point::Point2<re::render::World> = mk();
    let _ = re::math::Lerp::lerp(&a, &b, 0.5);
}

pub fn p1622() {
    let a: re::math::vec::Vec3<re::render::World> = mk();
    let b: re::math::point::Point3<re::render::Model> = mk();
    let _ = re::math::Lerp::lerp(&a, &b, 0.5);
}

pub fn p1623() {
    let a: re::math::vec::Vec3<re::render::World> = mk();
    let b: re::math::point::Point3<()> = mk();
    let _ = re::math::Lerp::lerp(&a, &b, 0.5);
}

pub fn p1624() {
    let a: re::math::vec::Vec3<re::render::World> = mk();
    let b: re::math::point::Point3<re::render::World> = mk();
    let _ = re::math::Lerp::lerp(&a, &b, 0.5);
}

pub fn p1625() {
    let a: re::math::vec::Vec3<re::render::World> = mk();
    let b: re::math::vec::Vec2<re::render::Model> = mk();
    let _ = a + b;
}

pub fn p1626() {
    let a: re::math::vec::Vec3<re::render::World> = mk();
    let b: re::math::vec::Vec2<re::render::Model> = mk();
    let _ = a.dot(&b);
}

pub fn p1627() {
    let a: re::math::vec::Vec3<re::render::World> = mk();
    let b: re::math::vec::Vec2<re::render::Model> = mk();
    let _ = re::math::Lerp::lerp(&a, &b, 0.5);
}

pub fn p1628() {
    let a: re::math::vec::Vec3<re::render::World> = mk();
    let b: re::math::vec::Vec2<re::render::Model> = mk();
    let _ = a - b;
}

pub fn p1629() {
    let a: re::math::vec::Vec3<re::render::World> = mk();
    let b: re::math::vec::Vec2<()> = mk();
    let _ = a + b;
}

pub fn p1630() {
    let a: re::math::vec::Vec3<re::render::World> = mk();
    let b: re::math::vec::Vec2<()> = mk();
    let _ = a.dot(&b);
}

pub fn p1631() {
    let a: re::math::vec::Vec3<re::render::World> = mk();
    let b: re::math::vec::Vec2<()> = mk();
    let _ = re::math::Lerp::lerp(&a, &b, 0.5);
}

pub fn p1632() {
    let a: re::math::vec::Vec3<re::render::World> = mk();
    let b: re::math::vec::Vec2<()> = mk();
    let _ = a - b;
}

pub fn p1633() {
    let a: re::math::vec::Vec3<re::render::World> = mk();
    let b: re::math::vec::Vec2<re::render::World> = mk();
    let _ = a + b;
}

pub fn p1634() {
    let a: re::math::vec::Vec3<re::render::World> = mk();
    let b: re::math::vec::Vec2<re::render::World> = mk();
    let _ = a.dot(&b);
}

pub fn p1635() {
    let a: re::math::vec::Vec3<re::render::World> = mk();
    let b: re::math::vec::Vec2<re::render::World> = mk();
    let _ = re::math::Lerp::lerp(&a, &b, 0.5);
}

pub fn p1636() {
    let a: re::math::vec::Vec3<re::render::World> = mk();
    let b: re::math::vec::Vec2<re::render::World> = mk();
    let _ = a - b;
}

pub fn p1637() {
    let a: re::math::vec::Vec3<re::render::World> = mk();
    let b: re::math::vec::Vec3<re::render::Model> = mk();
    let _ = a + b;
}

pub fn p1638() {
    let a: re::math::vec::Vec3<re::render::World> = mk();
    let b: re::math::vec::Vec3<re::render::Model> = mk();
    let _ = a.dot(&b);
}

pub fn p1639() {
    let a: re::math::vec::Vec3<re::render::World> = mk();
    let b: re::math::vec::Vec3<re::render::Model> = mk();
    let _ = re::math::Lerp::lerp(&a, &b, 0.5);
}

pub fn p1640() {
    let a: re::math::vec::Vec3<re::render::World> = mk();
    let b: re::math::vec::Vec3<re::render::Model> = mk();
    let _ = a - b;
}

pub fn p1641() {
    let a: re::math::vec::Vec3<re::render::World> = mk();
    let b: re::math::vec::Vec3<()> = mk();
    let _ = a + b;
}

pub fn p1642() {
    let a: re::math::vec::Vec3<re::render::World> = mk();
    let b: re::math::vec::Vec3<()> = mk();
    let _ = a.dot(&b);
}

pub fn p1643() {
    let a: re::math::vec::Vec3<re::render::World> = mk();
    let b: re::math::vec::Vec3<()> = mk();
    let _ = re::math::Lerp::lerp(&a, &b, 0.5);
}

pub fn p1644() {
    let a: re::math::vec::Vec3<re::render::World> = mk();
    let b: re::math::vec::Vec3<()> = mk();
    let _ = a - b;
}

pub fn p1645() {
    let a: re::math::vec::Vec3<re::render::World> = mk();
    let b: re::math::vec::Vec3<crate::UserTag> = mk();
    let _ = a + b;
}

pub fn p1646() {
    let a: re::math::vec::Vec3<re::render::World> = mk();
    let b: re::math::vec::Vec3<crate::UserTag> = mk();
    let _ = a.dot(&b);
}

pub fn p1647() {
    let a: re::math::vec::Vec3<re::render::World> = mk();
    let b: re::math::vec::Vec3<crate::UserTag> = mk();
    let _ = re::math::Lerp::lerp(&a, &b, 0.5);
}

pub fn p1648() {
    let a: re::math::vec::Vec3<re::render::World> = mk();
    let b: re::math::vec::Vec3<crate::UserTag> = mk();
    let _ = a - b;
}

