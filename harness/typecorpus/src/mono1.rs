#![allow(unused)]
fn mk<T>() -> T { unimplemented!() }

pub fn p1169() {
    let a: re::math::mat::Matrix<[[f32; 2]; 2], re::math::mat::RealToReal<3, re::render::Model, re::render::World>> = mk();
    let _ = a.transpose();
}

