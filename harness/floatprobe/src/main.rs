//! floatprobe — evaluates the float helper backend selected by the crate
//! features of retrofire-core (none = fallback, libm, mm, std), plus its
//! consumers (pixel rounding through tri_fill, Angle::wrap, SamplerRepeatPot,
//! normalisation), and records every result next to std's.
//!
//! usage: floatprobe <backend-name> <seed> <quick|thorough>   (writes ndjson to stdout)

use re::math::float::f32 as ff; // the crate-selected backend (module or type)
use re::math::float::fallback;
use serde_json::{json, Value};
use std::io::Write;
use std::panic::{catch_unwind, AssertUnwindSafe};

struct Rng(u64);
impl Rng {
    fn next(&mut self) -> u64 {
        self.0 = self.0.wrapping_add(0x9E3779B97F4A7C15);
        let mut z = self.0;
        z = (z ^ (z >> 30)).wrapping_mul(0xBF58476D1CE4E5B9);
        z = (z ^ (z >> 27)).wrapping_mul(0x94D049BB133111EB);
        z ^ (z >> 31)
    }
    fn unit(&mut self) -> f64 {
        (self.next() >> 11) as f64 / (1u64 << 53) as f64
    }
}

fn rec(x: f32) -> Value {
    let b = x.to_bits();
    let s = b >> 31;
    let ex = ((b >> 23) & 0xFF) as i32;
    let fr = b & 0x7F_FFFF;
    if ex == 255 {
        return if fr == 0 { json!([2, s, 0, 0]) } else { json!([3, 0, 0, 0]) };
    }
    if ex == 0 && fr == 0 {
        return json!([0, s, 0, 0]);
    }
    let (m, e) = if ex == 0 { (fr, -149) } else { (fr | 0x80_0000, ex - 150) };
    json!([1, s, m, e])
}
fn key(x: f32) -> i64 {
    if x.is_nan() {
        return i32::MAX as i64;
    }
    let b = x.to_bits();
    if b >> 31 == 0 { b as i64 } else { -((b & 0x7FFF_FFFF) as i64) }
}
fn sc(x: f32) -> i64 {
    let v = (x as f64 * 1048576.0).round();
    if v.is_nan() { 2_000_000_000 } else { v.clamp(-2e9, 2e9) as i64 }
}
fn guard<T>(f: impl FnOnce() -> T) -> Option<T> {
    catch_unwind(AssertUnwindSafe(f)).ok()
}

fn emit1(out: &mut dyn Write, be: &str, which: &str, f: &str, x: f32, y: Option<f32>, ystd: f32) {
    let (p, yv) = match y {
        Some(v) => (0, v),
        None => (1, 0.0),
    };
    writeln!(out, "{}", json!({"op": "f1", "be": be, "which": which, "fn": f, "x": rec(x), "y": rec(yv), "ystd": rec(ystd),
        "ky": key(yv), "kstd": key(ystd), "sy": sc(yv), "sstd": sc(ystd), "sx": sc(x), "panic": p})).unwrap();
}

fn main() {
    std::panic::set_hook(Box::new(|_| {}));
    let a: Vec<String> = std::env::args().collect();
    let be = a[1].as_str();
    let seed: u64 = a[2].parse().unwrap();
    let thorough = a[3] == "thorough";
    let out = std::io::stdout();
    let mut out = std::io::BufWriter::new(out.lock());
    if a[3] == "tex" || a[3] == "tex-thorough" {
        // the texture samplers under this build's float backend (floor!), in the record format of TV_Tex (C12)
        #[cfg(any(feature = "libm", feature = "mm", feature = "std"))]
        use re::render::tex::SamplerClamp;
        use re::render::tex::{uv, SamplerOnce, SamplerRepeatPot, Texture};
        use re::util::buf::Buf2;
        let mut rng = Rng(seed ^ 0x7E87);
        let n = if a[3] == "tex" { 6_000 } else { 100_000 };
        for i in 0..n {
            let pot = i % 2 == 0;
            let (w, h) = if pot { (1u32 << (rng.next() % 6), 1u32 << (rng.next() % 5)) } else { (1 + (rng.next() % 9) as u32, 1 + (rng.next() % 7) as u32) };
            let mut coord = |rng: &mut Rng, n: u32| -> f32 {
                match rng.next() % 8 {
                    0 => f32::from_bits(rng.next() as u32),
                    1 | 2 => ((rng.unit() * 3.0 - 1.0) * n as f64) as f32,
                    3 => ((rng.next() % (4 * n as u64 + 1)) as f32 - 2.0 * n as f32) / 2.0,
                    // halves where the spacing of f32 is exactly one half (2^22 .. 2^23), both signs
                    4 => { let v = 4194304.0 + (rng.next() % 4194304) as f32 + 0.5; if rng.next() % 2 == 0 { v } else { -v } }
                    5 => { let v = (1u64 << (rng.next() % 31)) as f32 + [0.0f32, 0.5, -0.5, 0.25][(rng.next() % 4) as usize]; if rng.next() % 2 == 0 { v } else { -v } }
                    6 => [0.0f32, -0.0, f32::INFINITY, f32::NEG_INFINITY, f32::NAN, -1e-45, 1e-45, 2147483648.0, -2147483648.0, -2147483520.0][(rng.next() % 10) as usize],
                    _ => ((rng.unit() - 0.5) * 4.0e9) as f32,
                }
            };
            let (u, v) = (coord(&mut rng, w), coord(&mut rng, h));
            let tex = Texture::from(Buf2::new_with((w, h), |x, y| (x as i32, y as i32)));
            let tc = uv(u, v);
            let res = |r: Option<(i32, i32)>| match r { Some((x, y)) => json!(["texel", x, y]), None => json!(["panic", 0, 0]) };
            let mut j = 0;
            let mut push = |out: &mut dyn Write, smp: &str, r: Option<(i32, i32)>| {
                writeln!(out, "{}", json!({"k": format!("x-{be}-{i}#{j}"), "be": be, "smp": smp, "op": "abs", "w": w, "h": h, "sub": 0,
                    "u": rec(u), "v": rec(v), "res": res(r)})).unwrap();
                j += 1;
            };
            if w.is_power_of_two() && h.is_power_of_two() {
                match guard(|| SamplerRepeatPot::new(&tex)) {
                    Some(s) => push(&mut out, "repeat", guard(|| s.sample_abs(&tex, tc))),
                    None => push(&mut out, "repeat", None),
                }
            }
            #[cfg(any(feature = "libm", feature = "mm", feature = "std"))]
            push(&mut out, "clamp", guard(|| SamplerClamp.sample_abs(&tex, tc)));
            push(&mut out, "once", guard(|| SamplerOnce.sample_abs(&tex, tc)));
        }
        out.flush().unwrap();
        return;
    }
    if a[3] == "color" || a[3] == "color-thorough" {
        // float colour conversions under this build's float backend (rem_euclid!), in the record format of TV_Color (C16)
        use re::math::color::{hsl, rgb, Color3f, Hsl};
        let mut rng = Rng(seed ^ 0xC0102);
        let hx = |x: f32| format!("{:08x}", x.to_bits());
        let mut cases: Vec<[f32; 3]> = vec![];
        let n = if a[3] == "color" { 12u32 } else { 60 };
        for r in 0..=n { for g in 0..=n { for b in 0..=n { cases.push([r, g, b].map(|v| v as f32 / n as f32)); } } }
        for i in 0..(if a[3] == "color" { 6_000 } else { 200_000 }) {
            let mut c = [0f32; 3];
            for v in c.iter_mut() {
                *v = match rng.next() % 8 { 0 => 0.0, 1 => 1.0, 2 => f32::from_bits(0x3f7fffff), 3 => f32::from_bits((rng.next() % 64) as u32), _ => rng.unit() as f32 };
            }
            if i % 9 == 0 { c[1] = c[0]; c[2] = c[0]; }
            cases.push(c);
        }
        for (i, c) in cases.iter().enumerate() {
            let k = format!("{be}-col{i}");
            let col: Color3f = rgb(c[0], c[1], c[2]);
            let (p, h, back) = match guard(|| { let h = col.to_hsl(); (h, h.to_rgb()) }) {
                Some((h, b)) => (0, h.0.map(sc), b.0.map(sc)),
                None => (1, [0; 3], [0; 3]),
            };
            writeln!(out, "{}", json!({"k": k, "op": "rtf", "be": be, "c": c.map(hx), "panic": p, "hsl": h, "back": back, "rgb": col.0.map(sc),
                "gray": (c[0] == c[1] && c[1] == c[2]) as u8})).unwrap();
            if i % 3 == 0 {
                let hc: Color3f<Hsl> = hsl(c[0], c[1], c[2]);
                let (p, r) = match guard(|| hc.to_rgb()) { Some(r) => (0, r.0.map(sc)), None => (1, [0; 3]) };
                writeln!(out, "{}", json!({"k": format!("{k}h"), "op": "hslf", "be": be, "c": c.map(hx), "panic": p, "rgb": r, "hsl": hc.0.map(sc)})).unwrap();
            }
        }
        return;
    }
    #[cfg(any(feature = "libm", feature = "mm", feature = "std"))]
    if a[3] == "unit" || a[3] == "unit-thorough" {
        // unit circle / sphere samples under this build's float backend (normalisation goes through its
        // reciprocal square root), as "normb" records of TV_Rand (C19)
        use re::math::rand::{Distrib, UnitCircle, UnitSphere, Xorshift64};
        let mut rng = Rng(seed ^ 0x0C19);
        let n = if a[3] == "unit" { 3_000 } else { 100_000 };
        for i in 0..n {
            let st = rng.next() | 1;
            let dist = if i % 2 == 0 { "circle" } else { "sphere" };
            let r = guard(|| {
                let g = &mut Xorshift64(st);
                if i % 2 == 0 { UnitCircle.sample(g).len_sqr() } else { UnitSphere.sample(g).len_sqr() }
            });
            let (p, n2) = match r { Some(v) => (0, (v as f64 * 1048576.0).round().min(1e9) as i64), None => (1, 0) };
            writeln!(out, "{}", json!({"k": format!("{be}-u{i}"), "op": "normb", "be": be, "dist": dist, "n2": n2, "panic": p})).unwrap();
        }
        return;
    }
    #[cfg(any(feature = "libm", feature = "mm", feature = "std"))]
    if a[3] == "fpcam" || a[3] == "fpcam-thorough" {
        // the first-person camera's view transform under this build's float backend, as "rigid" records of TV_Proj (C08)
        use re::math::vec::vec3;
        use re::render::cam::{FirstPerson, Mode};
        let mut rng = Rng(seed ^ 0xF9CA);
        let n = if a[3] == "fpcam" { 400 } else { 20_000 };
        for i in 0..n {
            let r = |rng: &mut Rng, m: f64| ((rng.unit() * 2.0 - 1.0) * m).round() as f32;
            let mag = [4.0, 30.0, 1000.0][i % 3];
            let pos = [r(&mut rng, mag), r(&mut rng, mag), r(&mut rng, mag)];
            let mut d = [r(&mut rng, 9.0), r(&mut rng, 9.0), r(&mut rng, 9.0)];
            if d[0] == 0.0 && d[2] == 0.0 { d[0] = 1.0; }
            let res = guard(|| {
                let mut fp = FirstPerson::new();
                fp.pos = vec3(pos[0], pos[1], pos[2]);
                fp.look_at(vec3(pos[0] + d[0], pos[1] + d[1], pos[2] + d[2]));
                fp.world_to_view()
            });
            let s4 = |x: f32| -> i64 { let v = (x as f64 * 4096.0).round(); if v.is_finite() { v.clamp(-2e9, 2e9) as i64 } else { 2_000_000_000 } };
            let (p, rows) = match res {
                Some(m) => (0, (0..3).map(|i| (0..4).map(|j| s4(m.0[i][j])).collect::<Vec<_>>()).collect::<Vec<_>>()),
                None => (1, vec![vec![0; 4]; 3]),
            };
            writeln!(out, "{}", json!({"k": format!("{be}-cam{i}"), "op": "rigid", "be": be, "pos": pos, "d": d, "M": rows, "panic": p})).unwrap();
        }
        return;
    }
    #[cfg(any(feature = "libm", feature = "mm", feature = "std"))]
    if a[3] == "anglewrap" || a[3] == "anglewrap-thorough" {
        // Angle::wrap under this build's float backend, in the record format of TV_Angle (C18)
        use re::math::angle::degs;
        let mut rng = Rng(seed ^ 0xA2617);
        let sc = |x: f32| -> i64 { let v = (x as f64 * 1024.0).round(); if v.is_finite() { v.clamp(-2e9, 2e9) as i64 } else { 2_000_000_000 } };
        let ivs = [(0.0f32, 360.0f32), (-180.0, 180.0), (0.0, 90.0), (-90.0, 270.0), (100.0, 101.0), (-720.0, -360.0), (0.0, 57.29578), (30.0, 390.0)];
        let n = if a[3] == "anglewrap" { 20_000 } else { 300_000 };
        for i in 0..n {
            let (lo, hi) = ivs[i % ivs.len()];
            let p = hi - lo;
            let k = ((rng.unit() - 0.5) * 40.0).round() as f32;
            let x = match i % 5 {
                0 => lo + k * p,                                                  // exact multiples of the period
                1 if lo + k * p != 0.0 => f32::from_bits((lo + k * p).to_bits() - 1), // one ulp towards zero
                2 if lo + k * p != 0.0 => f32::from_bits((lo + k * p).to_bits() + 1), // one ulp away from zero
                3 => lo + ((rng.unit() - 0.5) * 40.0) as f32 * p,
                _ => lo - rng.unit() as f32 * p * 2.0,
            };
            let r = guard(|| degs(x).wrap(degs(lo), degs(hi)).to_degs());
            let (ar, lr, hr) = (degs(x).to_rads(), degs(lo).to_rads(), degs(hi).to_rads());
            let (dd, pp) = (ar - lr, hr - lr);
            let exact = (dd as f64 == ar as f64 - lr as f64 && pp as f64 == hr as f64 - lr as f64 && pp > 0.0 && (dd as f64 % pp as f64) == 0.0) as u8;
            let athi = (guard(|| degs(x).wrap(degs(lo), degs(hi)).to_rads()) == Some(hr)) as u8;
            let (pn, rv) = match r { Some(v) => (0, v), None => (1, lo) };
            writeln!(out, "{}", json!({"k": format!("w-{be}-{i}"), "op": "wrap", "be": be, "a": sc(x), "lo": sc(lo), "hi": sc(hi), "r": sc(rv),
                "below": (rv < lo) as u8, "above": (rv > hi) as u8, "panic": pn,
                "exact": exact, "athi": athi})).unwrap();
        }
        // the radius of to_polar / to_spherical is the vector's length, under this build's square root:
        // magnitudes from 2^-45 (squares still normal numbers) to 2^20
        use re::math::vec::{vec2, vec3};
        for i in 0..(n / 10) {
            let mag = 2f64.powi(((rng.unit() * 66.0) as i32) - 45);
            let c: Vec<f32> = (0..3).map(|_| ((rng.unit() - 0.5) * 2.0 * mag) as f32).collect();
            let big = c.iter().fold(0f32, |a, x| a.max(x.abs()));
            if big == 0.0 { continue; }
            let k = 2f64.powi(13 - (big as f64).log2().floor() as i32);
            let q = |x: f32| -> i64 { let v = (x as f64 * k).round(); if v.is_finite() { v.clamp(-2e9, 2e9) as i64 } else { 2_000_000_000 } };
            let r2 = guard(|| vec2::<f32, ()>(c[0], c[1]).to_polar().r());
            let r3 = guard(|| vec3::<f32, ()>(c[0], c[1], c[2]).to_spherical().r());
            let (p, a2, a3) = match (r2, r3) { (Some(a), Some(b)) => (0, q(a), q(b)), _ => (1, 0, 0) };
            writeln!(out, "{}", json!({"k": format!("rl-{be}-{i}"), "op": "rlen", "be": be, "v": [q(c[0]), q(c[1]), q(c[2])], "r2": a2, "r3": a3, "panic": p})).unwrap();
        }
        out.flush().unwrap();
        return;
    }
    let mut rng = Rng(seed ^ 0xF10A7);

    // ---- structured inputs for the exact functions: every sign x exponent -20..40 x mantissa patterns
    let mut xs: Vec<f32> = vec![0.0, -0.0, f32::INFINITY, f32::NEG_INFINITY, f32::NAN, f32::MAX, f32::MIN, 1e-45, -1e-45];
    for e in -20i32..=40 {
        for m in [0u32, 1, 1 << 22, (1 << 23) - 1, 1 << 10, (1 << 22) | 1] {
            let v = f32::from_bits((((e + 127) as u32) << 23) | m);
            xs.push(v);
            xs.push(-v);
        }
        // the binary point at each bit position: integers plus a half
        if (0..23).contains(&e) {
            let v = f32::from_bits((((e + 127) as u32) << 23) | (1 << (22 - e).max(0)));
            xs.push(v);
            xs.push(-v);
        }
    }
    for k in -40..=40 {
        xs.push(k as f32);
        xs.push(k as f32 + 0.5);
        xs.push(k as f32 - 0.25);
        xs.push(f32::from_bits((k as f32).to_bits().wrapping_add(1)));
        xs.push(f32::from_bits((k as f32).to_bits().wrapping_sub(1)));
    }
    let nrand = if thorough { 400_000 } else { 30_000 };
    for i in 0..nrand {
        xs.push(if i % 2 == 0 { f32::from_bits(rng.next() as u32) } else { ((rng.unit() - 0.5) * 4096.0) as f32 });
    }
    for &x in &xs {
        // the selected backend, and the always-public fallback module
        emit1(&mut out, be, "sel", "floor", x, guard(|| ff::floor(x)), x.floor());
        emit1(&mut out, be, "sel", "abs", x, guard(|| ff::abs(x)), x.abs());
        emit1(&mut out, be, "fallback", "floor", x, guard(|| fallback::floor(x)), x.floor());
        emit1(&mut out, be, "fallback", "abs", x, guard(|| fallback::abs(x)), x.abs());
    }
    // (every section draws from its own stream so that all builds see the same inputs)
    let mut rng = Rng(seed ^ 0x4E31);
    // ---- rem_euclid: r in [0, m], (x - r) / m an integer
    let ms = [1.0f32, 2.0, 0.5, 3.0, 360.0, 6.2831855, 2.5, 1.0e-3, 7.0];
    for i in 0..(if thorough { 200_000 } else { 20_000 }) {
        let m = ms[i % ms.len()];
        let x = match i % 5 {
            0 => (((rng.unit() - 0.5) * 64.0).round() as f32) * m, // exact multiples, both signs
            1 => ((rng.unit() - 0.5) * 2000.0) as f32,
            2 => ((rng.unit() - 0.5) * 8.0) as f32 * m,
            3 => -(rng.unit() as f32) * m * 1e-3,
            _ => ((rng.unit() - 0.5) * 1.0e5) as f32,
        };
        for (which, r) in [("sel", guard(|| ff::rem_euclid(x, m))), ("fallback", guard(|| fallback::rem_euclid(x, m)))] {
            let (p, rv) = match r {
                Some(v) => (0, v),
                None => (1, 0.0),
            };
            let kq = ((x as f64 - rv as f64) / m as f64).round();
            let resid = ((x as f64 - rv as f64 - kq * m as f64) / m as f64).abs();
            writeln!(out, "{}", json!({"op": "rem", "be": be, "which": which, "kx": key(x), "km": key(m), "kr": key(rv), "k0": key(0.0),
                "resid": (resid * 1048576.0).ceil().min(2e9) as i64, "kabs": kq.abs().min(2e9) as i64, "panic": p})).unwrap();
        }
    }
    // ---- approximate functions of the selected backend against std
    #[cfg(any(feature = "libm", feature = "mm", feature = "std"))]
    {
        let mut rng = Rng(seed ^ 0xA991);
        let n = if thorough { 100_000 } else { 10_000 };
        for _ in 0..n {
            let u = rng.unit();
            let ang = ((u - 0.5) * 50.0) as f32;
            emit1(&mut out, be, "sel", "sin", ang, guard(|| ff::sin(ang)), ang.sin());
            emit1(&mut out, be, "sel", "cos", ang, guard(|| ff::cos(ang)), ang.cos());
            let unit = (u * 2.0 - 1.0) as f32;
            emit1(&mut out, be, "sel", "asin", unit, guard(|| ff::asin(unit)), unit.asin());
            emit1(&mut out, be, "sel", "acos", unit, guard(|| ff::acos(unit)), unit.acos());
            let t = ((u - 0.5) * 2.8) as f32;
            emit1(&mut out, be, "sel", "tan", t, guard(|| ff::tan(t)), t.tan());
            let pos = (2f64.powf((u - 0.5) * 40.0)) as f32;
            emit1(&mut out, be, "sel", "sqrt", pos, guard(|| ff::sqrt(pos)), pos.sqrt());
            let (ay, ax) = (((rng.unit() - 0.5) * 20.0) as f32, ((rng.unit() - 0.5) * 20.0) as f32);
            let r = guard(|| ff::atan2(ay, ax));
            let (p, rv) = match r { Some(v) => (0, v), None => (1, 0.0) };
            writeln!(out, "{}", json!({"op": "f1", "be": be, "which": "sel", "fn": "atan2", "x": rec(ay), "y": rec(rv), "ystd": rec(ay.atan2(ax)),
                "ky": key(rv), "kstd": key(ay.atan2(ax)), "sy": sc(rv), "sstd": sc(ay.atan2(ax)), "sx": sc(ay), "panic": p})).unwrap();
            // ... and the same direction given by a very short vector (1e-20 .. 1e-19: the squares are subnormal)
            if rng.unit() < 0.2 {
                let k = 2f32.powi(-64 - (rng.unit() * 3.0) as i32);
                let (ty, tx) = (ay * k, ax * k);
                let r = guard(|| ff::atan2(ty, tx));
                let (p, rv) = match r { Some(v) => (0, v), None => (1, 0.0) };
                writeln!(out, "{}", json!({"op": "f1", "be": be, "which": "sel", "fn": "atan2", "x": rec(ty), "y": rec(rv), "ystd": rec(ty.atan2(tx)),
                    "ky": key(rv), "kstd": key(ty.atan2(tx)), "sy": sc(rv), "sstd": sc(ty.atan2(tx)), "sx": sc(ty), "panic": p})).unwrap();
            }
            let base = (0.1 + u * 10.0) as f32;
            let ex = ((rng.unit() - 0.5) * 6.0) as f32;
            let r = guard(|| ff::powf(base, ex));
            let (p, rv) = match r { Some(v) => (0, v), None => (1, 0.0) };
            let st = base.powf(ex);
            writeln!(out, "{}", json!({"op": "f1", "be": be, "which": "sel", "fn": "powf", "x": rec(base), "y": rec(rv), "ystd": rec(st),
                "ky": key(rv), "kstd": key(st), "sy": sc(rv), "sstd": sc(st), "sx": sc(base), "panic": p})).unwrap();
        }
    }
    // ---- powers at the corners of the domain: x^0 = 1 (also 0^0), 1^y = 1, 0^y = 0 for y >= 1
    #[cfg(any(feature = "libm", feature = "mm", feature = "std"))]
    {
        let mut pairs: Vec<(f32, f32)> = vec![(0.0, 0.0), (0.0, 1.0), (0.0, 2.0), (0.0, 3.5), (1.0, 0.0), (1.0, 1.0), (1.0, -2.5), (1.0, 30.0)];
        for x in [1.0e-30f32, 1.0e-6, 0.001, 0.5, 0.75, 2.0, 10.0, 12345.0, 1.0e20] {
            pairs.push((x, 0.0));
            pairs.push((x, 1.0));
        }
        for (base, ex) in pairs {
            let r = guard(|| ff::powf(base, ex));
            let (p, rv) = match r { Some(v) => (0, v), None => (1, 0.0) };
            let st = base.powf(ex);
            writeln!(out, "{}", json!({"op": "f1", "be": be, "which": "sel", "fn": "powf", "x": rec(base), "y": rec(rv), "ystd": rec(st),
                "ky": key(rv), "kstd": key(st), "sy": sc(rv), "sstd": sc(st), "sx": sc(base), "panic": p})).unwrap();
        }
    }
    // ---- square roots over the WHOLE positive range, and the exponential (libm / std have one)
    #[cfg(any(feature = "libm", feature = "mm", feature = "std"))]
    {
        let mut rng = Rng(seed ^ 0x5C27);
        for i in 0..(if thorough { 60_000 } else { 6_000 }) {
            let pos = match i % 40 {
                0 => f32::MAX,
                1 => f32::MIN_POSITIVE,
                2 => 3.0e38,
                3 => 1.7e38,
                _ => (2f64.powf((rng.unit() - 0.5) * 252.0)) as f32,
            };
            if pos > 0.0 && pos.is_finite() {
                emit1(&mut out, be, "sel", "sqrt", pos, guard(|| ff::sqrt(pos)), pos.sqrt());
            }
        }
    }
    #[cfg(all(any(feature = "libm", feature = "std"), not(feature = "mm")))]
    {
        let mut rng = Rng(seed ^ 0xE4B);
        for i in 0..(if thorough { 60_000 } else { 6_000 }) {
            let x = match i % 3 { 0 => ((rng.unit() - 0.5) * 174.0) as f32, 1 => ((rng.unit() - 0.5) * 4.0) as f32, _ => ((rng.unit() - 0.5) * 40.0) as f32 };
            emit1(&mut out, be, "sel", "exp", x, guard(|| ff::exp(x)), x.exp());
        }
    }
    // ---- the same functions at the ends and special points of their domains
    #[cfg(any(feature = "libm", feature = "mm", feature = "std"))]
    {
        let one_m = f32::from_bits(1.0f32.to_bits() - 1);
        for unit in [1.0f32, -1.0, 0.0, -0.0, one_m, -one_m, 0.5, -0.5, 1e-20, -1e-20, 0.70710677, -0.70710677] {
            emit1(&mut out, be, "sel", "asin", unit, guard(|| ff::asin(unit)), unit.asin());
            emit1(&mut out, be, "sel", "acos", unit, guard(|| ff::acos(unit)), unit.acos());
        }
        let pi = core::f32::consts::PI;
        for ang in [0.0f32, -0.0, pi / 2.0, -pi / 2.0, pi, -pi, 2.0 * pi, pi / 4.0, 3.0 * pi / 2.0, 1e-20, 25.0, -25.0] {
            emit1(&mut out, be, "sel", "sin", ang, guard(|| ff::sin(ang)), ang.sin());
            emit1(&mut out, be, "sel", "cos", ang, guard(|| ff::cos(ang)), ang.cos());
        }
        for t in [0.0f32, -0.0, pi / 4.0, -pi / 4.0, 1.4, -1.4] {
            emit1(&mut out, be, "sel", "tan", t, guard(|| ff::tan(t)), t.tan());
        }
        for pos in [1.0f32, 4.0, 0.25, 2.0, 1.0e-6, 1.0e6, 9.0e-7, 1.0e-12, 1.0e12] {
            emit1(&mut out, be, "sel", "sqrt", pos, guard(|| ff::sqrt(pos)), pos.sqrt());
        }
        for (ay, ax) in [(0.0f32, 1.0f32), (1.0, 0.0), (0.0, -1.0), (-1.0, 0.0), (1.0, 1.0), (-1.0, -1.0), (1e-6, 0.0), (0.0, 1e-6),
                         (-1e-6, -1e-6), (1e6, 1e-6), (1e-6, 1e6)] {
            // (not probed: y = -0.0 on the negative x axis, where std returns -pi and an approximation
            // may as well return +pi - the same angle, on the branch cut)
            let r = guard(|| ff::atan2(ay, ax));
            let (p, rv) = match r { Some(v) => (0, v), None => (1, 0.0) };
            writeln!(out, "{}", json!({"op": "f1", "be": be, "which": "sel", "fn": "atan2", "x": rec(ay), "y": rec(rv), "ystd": rec(ay.atan2(ax)),
                "ky": key(rv), "kstd": key(ay.atan2(ax)), "sy": sc(rv), "sstd": sc(ay.atan2(ax)), "sx": sc(ay), "panic": p})).unwrap();
        }
    }
    // the reciprocal square roots of the libm and mm modules over the whole positive range
    #[cfg(feature = "libm")]
    {
        let mut rng = Rng(seed ^ 0x11B);
        for _ in 0..(if thorough { 100_000 } else { 10_000 }) {
            let pos = (2f64.powf((rng.unit() - 0.5) * 290.0)) as f32;
            if pos > 0.0 && pos.is_finite() {
                emit1(&mut out, be, "sel", "recip_sqrt", pos, guard(|| re::math::float::libm::recip_sqrt(pos)), 1.0 / pos.sqrt());
            }
        }
    }
    #[cfg(all(feature = "mm", not(feature = "libm")))]
    {
        let mut rng = Rng(seed ^ 0x11C);
        for _ in 0..(if thorough { 100_000 } else { 10_000 }) {
            let pos = (2f64.powf((rng.unit() - 0.5) * 40.0)) as f32;
            emit1(&mut out, be, "sel", "recip_sqrt", pos, guard(|| re::math::float::mm::recip_sqrt(pos)), 1.0 / pos.sqrt());
        }
    }
    let mut rng = Rng(seed ^ 0x5EC7);
    // the fallback's reciprocal square root, in every configuration
    for i in 0..(if thorough { 100_000 } else { 10_000 }) {
        // every third probe anywhere in the normal range, every 16th in its lowest or highest binade
        // (where exponent arithmetic on the bit pattern runs out of room), the ends themselves included
        let pos = match i % 48 {
            0 => f32::MIN_POSITIVE,
            16 => f32::MAX,
            32 => f32::from_bits(f32::MIN_POSITIVE.to_bits() * 2 - 1),
            _ if i % 16 == 1 => f32::from_bits(0x0080_0000 + (rng.unit() * 8388608.0) as u32),
            _ if i % 16 == 2 => f32::from_bits(0x7F00_0000 + (rng.unit() * 8388607.0) as u32),
            _ if i % 3 == 0 => (2f64.powf(-126.0 + rng.unit() * 253.9)) as f32,
            _ => (2f64.powf((rng.unit() - 0.5) * 40.0)) as f32,
        };
        if pos >= f32::MIN_POSITIVE && pos.is_finite() {
            emit1(&mut out, be, "fallback", "recip_sqrt", pos, guard(|| fallback::recip_sqrt(pos)), 1.0 / pos.sqrt());
        }
    }
    let mut rng = Rng(seed ^ 0xC045);
    // ---- consumers through the public API: must not depend on the backend
    use re::geom::vertex;
    use re::math::point::pt3;
    use re::render::raster::tri_fill;
    for i in 0..(if thorough { 20_000 } else { 2_000 }) {
        // pixel rounding: scanlines of a random triangle (coordinates on the 1/8 px lattice)
        let p = |rng: &mut Rng| ((rng.next() % 128) as f32 / 8.0, (rng.next() % 96) as f32 / 8.0);
        let (a, b, c) = (p(&mut rng), p(&mut rng), p(&mut rng));
        let mut rows: Vec<[usize; 3]> = vec![];
        let ok = guard(|| {
            tri_fill([vertex(pt3(a.0, a.1, 1.0), 0.0f32), vertex(pt3(b.0, b.1, 1.0), 0.0), vertex(pt3(c.0, c.1, 1.0), 0.0)], |sl| {
                rows.push([sl.y, sl.xs.start, sl.xs.end]);
            })
        })
        .is_some();
        // digest of the scanline list (the judge compares digests across backends)
        let mut h: u64 = 1469598103934665603;
        for r in &rows {
            for v in r {
                h = (h ^ *v as u64).wrapping_mul(1099511628211);
            }
        }
        writeln!(out, "{}", json!({"op": "cons", "be": be, "what": "raster", "i": i, "ok": ok as u8, "n": rows.len(), "d1": (h >> 40) as i64, "d2": ((h >> 16) & 0xFFFFFF) as i64})).unwrap();
    }
    {
        use re::render::tex::{uv, SamplerRepeatPot, Texture};
        use re::util::buf::Buf2;
        let tex = Texture::from(Buf2::new_with((8, 4), |x, y| (x + 8 * y) as i32));
        let s = SamplerRepeatPot::new(&tex);
        for i in 0..(if thorough { 40_000 } else { 4_000 }) {
            let (u, v) = (((rng.unit() - 0.5) * 100.0) as f32, ((rng.unit() - 0.5) * 100.0) as f32);
            let (u, v) = if i % 3 == 0 { (u.round(), v.round()) } else { (u, v) };
            let r = guard(|| s.sample_abs(&tex, uv(u, v)));
            writeln!(out, "{}", json!({"op": "cons", "be": be, "what": "tex", "i": i, "ok": r.is_some() as u8, "n": 1, "d1": r.unwrap_or(-1), "d2": 0})).unwrap();
        }
    }
    {
        use re::math::vec::vec3;
        for i in 0..(if thorough { 40_000 } else { 4_000 }) {
            let v = vec3::<f32, ()>(((rng.unit() - 0.5) * 20.0) as f32, ((rng.unit() - 0.5) * 20.0) as f32, ((rng.unit() - 0.5) * 20.0) as f32);
            let v = match i % 50 { 0 => v * 1e-12, 1 => v * 1e-18, 2 => v * 1e15, _ => v };
            let r = guard(|| v.normalize());
            let (okf, c) = match r { Some(n) => (1, [sc(n.x()), sc(n.y()), sc(n.z())]), None => (0, [0, 0, 0]) };
            writeln!(out, "{}", json!({"op": "norm", "be": be, "i": i, "ok": okf, "c": c})).unwrap();
        }
    }
    #[cfg(any(feature = "libm", feature = "mm", feature = "std"))]
    {
        let mut rng = Rng(seed ^ 0x3A9);
        use re::math::angle::{degs, turns};
        for i in 0..(if thorough { 40_000 } else { 4_000 }) {
            let a = ((rng.unit() - 0.5) * 4000.0) as f32;
            let a = if i % 4 == 0 { a.round() } else { a };
            let (lo, hi) = [(-180.0f32, 180.0f32), (0.0, 360.0), (-90.0, 90.0), (10.0, 20.0)][i % 4];
            let r = guard(|| degs(a).wrap(degs(lo), degs(hi)).to_degs());
            let _ = turns(0.0);
            let (okf, w) = match r { Some(w) => (1, w), None => (0, 0.0) };
            writeln!(out, "{}", json!({"op": "wrap", "be": be, "i": i, "ok": okf, "a": sc(a / 16.0), "lo": sc(lo / 16.0), "hi": sc(hi / 16.0), "w": sc(w / 16.0)})).unwrap();
        }
    }
    out.flush().unwrap();
}
