"""C12 — texture samplers address the right texel and never go out of bounds."""
import json
import os

import vf


def run(tier):
    chk = vf.Check("C12", tier)
    binpath = vf.build_harness()
    d = vf.outdir("c12")
    consts = {"MaxK": 12 if tier == "quick" else 40, "Export": True}
    cfg = vf.write_cfg(os.path.join(d, "MC_Tex.cfg"), consts, invariants=["Inv", "ExportInv"])
    r = vf.tlc("MC_Tex", cfg, workers=8, gc="parallel", heap="8g")
    chk.add_mc("MC_Tex", r, consts)
    gen_cases = os.path.join(d, "gen_cases.ndjson")
    n = 0
    with open(gen_cases, "w") as f:
        for ln in r.prints:
            t = vf.parse_print(ln)
            if not t or t[0] != "REPLAY":
                continue
            c = json.loads(t[1])
            c["k"] = "g%d" % n
            f.write(json.dumps(c, separators=(",", ":")) + "\n")
            n += 1
    vf.log("[gen] %d lattice points exported by TLC" % n)
    if n == 0:
        raise vf.ToolError("no export from MC_Tex")
    chk.cov.update({"spec_behaviours_replayed": n, "exhaustive": True,
                    "rule": "every (size, u, v) of the MC_Tex lattice and seeded random f32 bit patterns / border "
                            "values are sampled through all three samplers, absolute and relative entry points, "
                            "owned and sub-region textures; one record = one sampler call"})
    vf.exec_and_validate(chk, binpath, "tex", "TV_Tex", gen_cases, jvms=8, what="sampler call")
    rnd = os.path.join(d, "rnd_cases.ndjson")
    vf.run_harness(binpath, ["tex", "gen", "--seed", vf.seed(), "--tier", tier], stdout_path=rnd)
    vf.exec_and_validate(chk, binpath, "tex", "TV_Tex", rnd, jvms=10, what="sampler call")
    # also in a plain release build (no debug assertions, wrapping arithmetic): what a user ships
    plain = vf.build_harness("plain")
    vf.exec_and_validate(chk, plain, "tex", "TV_Tex", rnd, jvms=10, what="sampler call (plain release build)")
    # the samplers under the other float backends: the repeating sampler's floor is the backend's
    # (built-in fallback without any fp feature, libm, micromath)
    probe = os.path.join(vf.HARNESS, "floatprobe")
    bk = os.path.join(d, "tex_backends.ndjson")
    with open(bk, "w") as fw:
        for name, feats in (("none", []), ("libm", ["libm"]), ("mm", ["mm"])):
            vf._built.pop(("release", probe, tuple(feats)), None)
            pb = vf.build_harness("release", crate=probe, features=feats, bin_name="floatprobe")
            fw.write(vf.run_harness(pb, [name, vf.seed(), "tex" if tier == "quick" else "tex-thorough"]))
    nrec, nev, badb = vf.validate_trace("TV_Tex", bk, jvms=6)
    vf.log("[tv] samplers under the fallback / libm / mm backends: %d calls judged by TV_Tex: %d rejected" % (nrec, len(badb)))
    chk.cov["traces_validated_against_impl"] += nrec
    chk.cov["evaluations"] += nev
    for b in badb:
        chk.violation(b["key"], {"sub": "floatprobe-tex", "record": b["record"]},
                      what="sampler call %s rejected by TV_Tex: %s" % (b["key"], json.dumps(b["record"])[:300]))
    chk.cov["distinct_nontrivial"] = chk.cov["traces_validated_against_impl"]
    chk.cov["trusted_base"] = ["TLC + CommunityModules", "harness/src/tex.rs recorder and f32 decoding (util::f32_rec)"]
    chk.assumptions = ["texel type (i32,i32); coordinates >= 2^31 in magnitude / NaN may address any texel"]
    return chk.finish()


def replay(path):
    obj = json.load(open(path))
    if obj.get("sub") == "floatprobe-tex":
        # the "case" is a feature build of the probe: re-run the whole quick check
        return run("quick")
    return vf.replay("C12", path)
