"""C16 — colour conversions are mutually inverse, total and in range."""
import json
import os

import vf


def run(tier):
    chk = vf.Check("C16", tier)
    binpath = vf.build_harness()
    d = vf.outdir("c16")
    consts = {"Step": 5 if tier == "quick" else 1}
    cfg = vf.write_cfg(os.path.join(d, "MC_Color.cfg"), consts, invariants=["RoundTrip8", "Total8", "Grays8"])
    r = vf.tlc("MC_Color", cfg, workers=12, gc="parallel", heap="8g")
    chk.add_mc("MC_Color", r, consts)
    chk.cov["exhaustive"] = tier == "thorough"
    cases = os.path.join(d, "cases.ndjson")
    vf.run_harness(binpath, ["color", "gen", "--seed", vf.seed(), "--tier", tier], stdout_path=cases)
    vf.exec_and_validate(chk, binpath, "color", "TV_Color", cases, jvms=10, what="observation")
    # also in a plain release build (no debug assertions, wrapping arithmetic): what a user ships
    plain = vf.build_harness("plain")
    vf.exec_and_validate(chk, plain, "color", "TV_Color", cases, jvms=10, what="observation (plain release build)")
    # the float conversions under the other float backends (the hue is wrapped by the backend's
    # rem_euclid): built-in fallback without any fp feature, libm, micromath
    probe = os.path.join(vf.HARNESS, "floatprobe")
    bk = os.path.join(d, "color_backends.ndjson")
    with open(bk, "w") as fw:
        for name, feats in (("none", []), ("libm", ["libm"]), ("mm", ["mm"])):
            vf._built.pop(("release", probe, tuple(feats)), None)
            pb = vf.build_harness("release", crate=probe, features=feats, bin_name="floatprobe")
            fw.write(vf.run_harness(pb, [name, vf.seed(), "color" if tier == "quick" else "color-thorough"]))
    nrec, nev, badb = vf.validate_trace("TV_Color", bk, jvms=6)
    vf.log("[tv] float conversions under the fallback / libm / mm backends: %d observations judged by TV_Color: %d rejected" % (nrec, len(badb)))
    chk.cov["traces_validated_against_impl"] += nrec
    chk.cov["evaluations"] += nev
    for b in badb:
        chk.violation(b["key"], {"sub": "floatprobe-color", "record": b["record"]},
                      what="observation %s rejected by TV_Color: %s" % (b["key"], json.dumps(b["record"])[:300]))
    chk.cov["distinct_nontrivial"] = chk.cov["traces_validated_against_impl"]
    chk.cov["rule"] = ("8-bit: rows (r,g) x all b of rgb->hsl->rgb and rows (h,s) x all l of hsl->rgb (quick: a 68x68 sub-"
                       "lattice of rows, thorough: all 2^24 both ways), aggregated per row (max error, panics, gray laws); "
                       "float: the k/24 and k/60 grids (every sextant boundary), random and boundary-adjacent triples "
                       "(values scaled by 2^20); packing lane-wise through all 256 values plus random words; float->u8 "
                       "incl. NaN/inf; saturating add over 256 x (-300..300) and huge differences")
    chk.cov["trusted_base"] = ["TLC + CommunityModules", "harness/src/color.rs recorder (row aggregation, 2^20 scaling)"]
    chk.assumptions = ["MC_Color transcribes the 8-bit algorithms (implementation-shaped): it proves the bound for the "
                       "algorithm as specified; the real code is judged at property level only"]
    return chk.finish()


def replay(path):
    obj = json.load(open(path))
    if obj.get("sub") == "floatprobe-color":
        # the "case" is a feature build of the probe: re-run the whole quick check
        return run("quick")
    return vf.replay("C16", path)
