"""C17 — Bezier curves and splines evaluate, differentiate and subdivide correctly."""
import os

import vf


def run(tier):
    chk = vf.Check("C17", tier)
    binpath = vf.build_harness()
    d = vf.outdir("c17")
    dep = 3 if tier == "quick" else 4
    cfg = vf.write_cfg(os.path.join(d, "MC_Spline.cfg"), {"MaxDep": dep}, invariants=["Algebra"])
    r = vf.tlc("MC_Spline", cfg, workers=8, gc="parallel", heap="8g")
    chk.add_mc("MC_Spline/Algebra", r, {})
    cfg = vf.write_cfg(os.path.join(d, "MC_SplineF.cfg"), {"MaxDep": dep}, spec="SpecF", invariants=["FlattenLaws"])
    r = vf.tlc("MC_Spline", cfg, workers=8, gc="parallel", heap="8g", tag="MC_SplineF")
    chk.add_mc("MC_Spline/Flatten", r, {"MaxDep": dep})
    chk.cov["exhaustive"] = True
    cases = os.path.join(d, "cases.ndjson")
    allcases = os.path.join(d, "all_cases.ndjson")
    vf.run_harness(binpath, ["spline", "gen", "--seed", vf.seed(), "--tier", tier], stdout_path=allcases)
    # from_rays is a constructor the statement does not mention: its cases are judged as extra coverage
    rays = os.path.join(d, "rays.ndjson")
    with open(allcases) as f, open(cases, "w") as fc, open(rays, "w") as fr:
        for ln in f:
            (fr if '"op":"rays"' in ln else fc).write(ln)
    vf.exec_and_validate(chk, binpath, "spline", "TV_Spline", cases, jvms=10, what="call")
    before = (chk.cov["traces_validated_against_impl"], chk.cov["evaluations"])
    nr, _, badr = vf.exec_and_validate(chk, binpath, "spline", "TV_Spline", rays, jvms=2, what="from_rays call", as_notes=True)
    chk.cov["traces_validated_against_impl"], chk.cov["evaluations"] = before
    # growth beyond the statement: smoothstep / smootherstep on the 1/16 lattice (notes only)
    extra = os.path.join(d, "extra.ndjson")
    vf.run_harness(binpath, ["spline", "gen", "extra"], stdout_path=extra)
    ne, _, bade = vf.exec_and_validate(chk, binpath, "spline", "TV_Spline", extra, jvms=1, what="smoothstep call", as_notes=True)
    chk.cov["extra_coverage"] = {"smoothstep_calls_validated": ne, "rejected": len(bade),
                                 "from_rays_calls_validated": nr, "from_rays_rejected": len(badr)}
    chk.cov["distinct_nontrivial"] = chk.cov["traces_validated_against_impl"]
    chk.cov["rule"] = ("seeded integer control polygons over several magnitudes for f32, Vec2, Point2, Vec3 and Color3f; "
                       "cubic eval / fast_eval / tangent at t = k/64 incl. t <= 0 and t >= 1; splines of 1..8 segments at "
                       "lattice parameters and joins; approximate() with a recording halt predicate (seeded answers, norm "
                       "thresholds from 10 to 1e-6, one-sided criteria): TLC replays the recorded answers on the stack "
                       "machine and checks count, order, end points, curve points and the error vectors shown to halt")
    chk.cov["trusted_base"] = ["TLC + CommunityModules", "harness/src/spline.rs recorder (1024 scaling, recording closure)"]
    chk.assumptions = ["parameters on the 1/64 lattice (deeper flattening pieces are checked for count and order only)",
                       "t = NaN is unconstrained", "the depth bound is the documented 10 + log2(len)"]
    return chk.finish()
