"""C20 — float helper backends agree with std across their whole domain."""
import json
import os
import shutil

import vf

PROBE = os.path.join(vf.HARNESS, "floatprobe")
# (libm+mm: both features on - libm has precedence, so that build is held to libm's bounds)
BACKENDS = [("none", []), ("libm", ["libm"]), ("mm", ["mm"]), ("std", ["std"]), ("libm+mm", ["libm", "mm"])]


def run(tier):
    chk = vf.Check("C20", tier)
    d = vf.outdir("c20")
    cfg = vf.write_cfg(os.path.join(d, "MC_Float.cfg"), None,
                       invariants=["FloorSpecOK", "AdjustIsFloor", "FormerWrongOnlyOnNegInts"])
    r = vf.tlc("MC_Float", cfg, workers=4, gc="parallel")
    chk.add_mc("MC_Float", r, {})
    # one build of the probe per feature configuration of retrofire-core
    calls = os.path.join(d, "calls.ndjson")
    cons = {}
    ncalls = 0
    with open(calls, "w") as fc:
        for name, feats in BACKENDS:
            vf._built.pop(("release", PROBE, tuple(feats)), None)
            binpath = vf.build_harness("release", crate=PROBE, features=feats, bin_name="floatprobe")
            mine = os.path.join(d, "floatprobe_" + name.replace("+", "_"))
            shutil.copy2(binpath, mine)
            outp = os.path.join(d, "probe_%s.ndjson" % name.replace("+", "_"))
            vf.run_harness(mine, [name, vf.seed(), tier], stdout_path=outp)
            with open(outp) as f:
                for ln in f:
                    rec = json.loads(ln)
                    if rec["op"] in ("f1", "rem"):
                        rec["k"] = "%s-%d" % (name, ncalls)
                        fc.write(json.dumps(rec, separators=(",", ":")) + "\n")
                        ncalls += 1
                    else:
                        key = (rec["op"], rec.get("what", ""), rec["i"])
                        cons.setdefault(key, {})[name] = rec
    nrec, nev, bad = vf.validate_trace("TV_Float", calls, jvms=12)
    vf.log("[tv] floatprobe: %d calls of the four builds judged by TV_Float: %d rejected" % (nrec, len(bad)))
    chk.cov["traces_validated_against_impl"] += nrec
    chk.cov["evaluations"] += nrec
    for b in bad:
        rec = b["record"]
        chk.violation("%s-%s-%s" % (rec.get("be"), rec.get("fn", rec["op"]), b["index"]),
                      {"sub": "floatprobe", "record": rec},
                      what="call rejected by TV_Float: %s" % json.dumps(rec)[:300])
    # the consumers, joined across the four builds
    joined = os.path.join(d, "cons.ndjson")
    n = 0
    with open(joined, "w") as f:
        for (op, what, i), by in sorted(cons.items()):
            def val(name):
                r = by.get(name)
                if r is None:
                    return []
                if op == "cons":
                    return [r["ok"], r["n"], r["d1"], r["d2"]]
                if op == "norm":
                    return [r["ok"], r["c"]]
                return [r["ok"], r["w"]]
            rec = {"k": "%s-%s-%d" % (op, what, i), "op": op, "what": what,
                   "v": [val("none"), val("libm"), val("mm"), val("std")]}
            if op == "wrap":
                rec["lo"] = by["std"]["lo"]
                rec["hi"] = by["std"]["hi"]
            f.write(json.dumps(rec, separators=(",", ":")) + "\n")
            n += 1
    nrec2, _, bad2 = vf.validate_trace("TV_FloatCons", joined, jvms=6)
    vf.log("[tv] consumers: %d joined observations judged by TV_FloatCons: %d rejected" % (nrec2, len(bad2)))
    chk.cov["traces_validated_against_impl"] += nrec2
    for b in bad2:
        chk.violation(b["key"], {"sub": "floatprobe-consumers", "record": b["record"]},
                      what="consumer behaviour differs between backends: %s" % json.dumps(b["record"])[:300])
    chk.sample(json.loads(open(calls).readline()))
    chk.cov["distinct_nontrivial"] = chk.cov["traces_validated_against_impl"]
    chk.cov["rule"] = ("four builds of floatprobe (retrofire-core with no fp feature, libm, mm, std); exact functions on "
                       "every sign x exponent -20..40 x significand patterns, integers +-1 ulp and random bit patterns; "
                       "rem_euclid over nine moduli; approximate functions on dense random sweeps of their domains against "
                       "std in the same process; tri_fill scanline digests, SamplerRepeatPot texels, normalize and "
                       "Angle::wrap joined across the builds")
    chk.cov["trusted_base"] = ["TLC + CommunityModules", "harness/floatprobe recorder (f32 decoding, ordered keys, 2^20 scaling, "
                               "residual of rem_euclid in f64, FNV digests of scanline lists)", "std's math on this machine"]
    chk.assumptions = ["bounds per backend and function are those of spec/Float.tla (measured with margin; micromath powf "
                       "only within 50 %)", "floor is judged for finite inputs; NaN / inf are outside the representable range"]
    return chk.finish()


def replay(path):
    vf.log("replay of C20 records: re-run `bin/check C20 quick` (the probes are rebuilt per feature set)")
    return run("quick")
