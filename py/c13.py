"""C13 — PNM codec: lossless round trip and total decoding."""
import json
import os

import vf


def bitmap_extra(chk, binpath, d, tier):
    """Growth beyond the statement: WHICH image a binary PBM (P4) file denotes (PnmBitmap.tla: rows padded to
    whole bytes).  Every file TLC enumerates is decoded by the real parse_pnm; rejections are notes, never alarms."""
    import collections
    cons = {"Export": "TRUE", "Wide": "TRUE" if tier == "thorough" else "FALSE"}
    cfg = vf.write_cfg(os.path.join(d, "MC_PnmBitmap.cfg"), cons, invariants=["Laws", "ExportInv"])
    r = vf.tlc("MC_PnmBitmap", cfg, workers=8, gc="parallel", heap="4g")
    chk.add_mc("MC_PnmBitmap (extra coverage)", r, cons)
    cases = os.path.join(d, "bitmap_cases.ndjson")
    n = 0
    with open(cases, "w") as f:
        for ln in r.prints:
            t = vf.parse_print(ln)
            if t and t[0] == "REPLAY":
                bs = json.loads(t[1])["bytes"]
                f.write(json.dumps({"k": "b%d" % n, "op": "parse", "via": "parse_pnm", "bytes": bs}, separators=(",", ":")) + "\n")
                # the same file cut one byte short, and with a comment and CRLF in the header
                f.write(json.dumps({"k": "b%dt" % n, "op": "parse", "via": "read_pnm", "bytes": bs[:-1]}, separators=(",", ":")) + "\n")
                if n % 7 == 0:
                    f.write(json.dumps({"k": "b%dc" % n, "op": "parse", "via": "read_trickle",
                                        "bytes": bs[:2] + [10, 35, 32, 120, 10] + bs[3:]}, separators=(",", ":")) + "\n")
                n += 1
    vf.run_harness(binpath, ["pnm", "exec", cases], stdout_path=cases + ".trace")
    nrec, nev, bad = vf.validate_trace("TV_PnmBitmap", cases + ".trace", jvms=8)
    why = collections.Counter(str(b["info"][0]) for b in bad)
    vf.log("[tv] P4 bitmaps: %d calls judged by TV_PnmBitmap: %d rejected %s" % (nrec, len(bad), dict(why)))
    for w, c in why.items():
        ex = next(b for b in bad if str(b["info"][0]) == w)
        chk.note("extra-coverage: %d P4 calls rejected (%s), e.g. %s -> %s" % (c, w, ex["key"], str(ex["info"][1])[:160]))
    chk.cov.setdefault("extra_coverage", {}).update({"p4_files_replayed": n, "p4_calls_validated": nrec,
                                                     "p4_rejected_by_clause": dict(why)})


def run(tier):
    chk = vf.Check("C13", tier)
    binpath = vf.build_harness()
    d = vf.outdir("c13")
    consts = {"Level": 1 if tier == "quick" else 2, "Export": True}
    cfg = vf.write_cfg(os.path.join(d, "MC_Pnm.cfg"), consts, invariants=["SpecConsistent", "ExportInv"])
    r = vf.tlc("MC_Pnm", cfg, workers=8, gc="parallel", heap="8g")
    chk.add_mc("MC_Pnm", r, consts)
    gen_cases = os.path.join(d, "gen_cases.ndjson")
    n = nwf = ntr = 0
    with open(gen_cases, "w") as f:
        for ln in r.prints:
            t = vf.parse_print(ln)
            if not t or t[0] != "REPLAY":
                continue
            try:
                bs = json.loads(t[1])
            except Exception:
                raise vf.ToolError("garbled REPLAY line from TLC")
            nwf += int(t[2])
            ntr += int(t[3])
            for via in ("parse_pnm", "read_pnm") if n % 2 == 0 else ("parse_pnm",):
                f.write(json.dumps({"k": "g%d" % n, "op": "parse", "via": via, "bytes": bs},
                                   separators=(",", ":")) + "\n")
            n += 1
    vf.log("[gen] %d files exported by TLC (%d well-formed, %d truncated)" % (n, nwf, ntr))
    if nwf == 0 or ntr == 0:
        raise vf.ToolError("vacuous model: no well-formed / truncated file generated")
    chk.cov.update({"spec_behaviours_replayed": n, "spec_wellformed_files": nwf, "spec_truncated_files": ntr,
                    "exhaustive": True,
                    "rule": "every complete file of the token-level grammar model MC_Pnm is decoded by the real "
                            "parse_pnm/read_pnm; plus seeded random images (<= 6x5, some up to 40x30) in all four "
                            "formats with random header spellings, write/read round trips of owned and strided "
                            "views, mutated and arbitrary byte strings, boundary headers; one record = one call"})
    vf.exec_and_validate(chk, binpath, "pnm", "TV_Pnm", gen_cases, jvms=10, what="call")
    rnd = os.path.join(d, "rnd_cases.ndjson")
    vf.run_harness(binpath, ["pnm", "gen", "--seed", vf.seed(), "--tier", tier], stdout_path=rnd)
    vf.exec_and_validate(chk, binpath, "pnm", "TV_Pnm", rnd, jvms=10, what="call")
    # also in a plain release build (no debug assertions, wrapping arithmetic): what a user ships
    plain = vf.build_harness("plain")
    vf.exec_and_validate(chk, plain, "pnm", "TV_Pnm", rnd, jvms=10, what="call (plain release build)")
    chk.cov["distinct_nontrivial"] = chk.cov["traces_validated_against_impl"]
    bitmap_extra(chk, binpath, d, tier)
    chk.cov["trusted_base"] = ["TLC + CommunityModules (Json, IOUtils)", "harness/src/pnm.rs recorder"]
    chk.assumptions = ["maxval 255 only for exact decoding; other maxvals, P4, VT as whitespace and '#' adjacent "
                       "to a token are only checked for totality and dims/count coherence",
                       "images judged exactly up to 4096 pixels"]
    return chk.finish()
