"""Common machinery for the /verif checks: building the harness from /repo's
working tree, running TLC (model checking, behaviour export, trace
validation), evidence files, replay files, known findings.

Exit codes of a check: 0 = property held on everything explored,
1 = violation (a line `VIOLATION property=<id> replay=<path>` is printed),
2 = tool / build failure (never a VIOLATION line).
"""
import concurrent.futures as cf
import json
import os
import re
import subprocess
import sys
import time

VERIF = os.path.dirname(os.path.dirname(os.path.abspath(__file__)))
SPEC = os.path.join(VERIF, "spec")
HARNESS = os.path.join(VERIF, "harness")
OUT = os.path.join(VERIF, "out")
EVID = os.path.join(VERIF, "evidence")
JARS = "/opt/veriftools/tla/tla2tools.jar:/opt/veriftools/tla/CommunityModules-deps.jar"


class ToolError(Exception):
    pass


def log(*a):
    print(*a, flush=True)


def seed():
    try:
        return int(os.environ.get("VERIF_SEED", "1"))
    except ValueError:
        return 1


def outdir(*parts):
    d = os.path.join(OUT, *parts)
    os.makedirs(d, exist_ok=True)
    return d


# ------------------------------------------------------------------ harness
_built = {}


def build_harness(profile="release", crate=HARNESS, features=None, bin_name="rfverif"):
    """cargo build (offline, incremental) against /repo's working tree."""
    key = (profile, crate, tuple(features or ()))
    if key in _built:
        return _built[key]
    cmd = ["cargo", "build", "--offline", "--profile", profile]
    if features is not None:
        cmd += ["--no-default-features"]
        if features:
            cmd += ["--features", ",".join(features)]
    env = dict(os.environ, CARGO_NET_OFFLINE="true")
    t0 = time.time()
    p = subprocess.run(cmd, cwd=crate, env=env, stdout=subprocess.PIPE, stderr=subprocess.STDOUT, text=True)
    if p.returncode != 0:
        sys.stdout.write(p.stdout[-6000:])
        raise ToolError("harness build failed (profile %s)" % profile)
    d = "release" if profile == "release" else profile
    path = os.path.join(crate, "target", d, bin_name)
    log("[build] %s %s in %.1fs" % (os.path.basename(crate), profile, time.time() - t0))
    _built[key] = path
    return path


def run_harness(binpath, args, stdout_path=None, stdin_path=None, timeout=3600):
    """Runs the harness; a non-zero exit is a tool error (panics of the code
    under test are captured inside the harness)."""
    so = open(stdout_path, "w") if stdout_path else subprocess.PIPE
    try:
        p = subprocess.run([binpath] + [str(a) for a in args], stdout=so, stderr=subprocess.PIPE,
                           text=True, timeout=timeout)
    finally:
        if stdout_path:
            so.close()
    if p.returncode == 3 and "HANG key=" in (p.stderr or ""):
        raise HarnessHang(p.stderr.split("HANG key=")[-1].strip().splitlines()[0])
    if p.returncode != 0:
        raise ToolError("harness %s exited %d: %s" % (" ".join(map(str, args)), p.returncode, p.stderr[-2000:]))
    return p.stdout if not stdout_path else None


class HarnessHang(Exception):
    """The code under test did not return from a case (watchdog of the harness)."""

    def __init__(self, key):
        Exception.__init__(self, "case %s did not return" % key)
        self.key = key


# ------------------------------------------------------------------ TLC
class TlcResult:
    def __init__(self):
        self.generated = 0
        self.distinct = 0
        self.depth = 0
        self.prints = []      # parsed <<...>> PrintT lines (raw strings)
        self.errors = []
        self.ok = False
        self.wall = 0.0
        self.raw_tail = ""
        self.violated = []    # names of violated invariants / properties / assumptions


_stat_re = re.compile(r"^(\d[\d,]*) states generated, (\d[\d,]*) distinct states found")


def tlc(module, cfg, workers=1, env=None, heap="4g", gc="serial", timeout=3600, tag=None,
        extra=None, simulate=None, print_prefix="<<", quiet=False):
    """Runs TLC on spec/<module>.tla with spec/<cfg>.  Returns TlcResult.
    Tool failures raise ToolError; property violations are reported in
    result.violated (never raised)."""
    meta = outdir("tlc", tag or module)
    gcopts = ["-XX:+UseSerialGC"] if gc == "serial" else ["-XX:+UseParallelGC", "-XX:ParallelGCThreads=4"]
    cmd = ["java"] + gcopts + ["-Xss512m", "-Xmx" + heap, "-cp", JARS, "tlc2.TLC", "-nowarning",
           "-workers", str(workers), "-metadir", meta, "-cleanup", "-noGenerateSpecTE",
           "-config", cfg]
    if simulate:
        cmd += ["-simulate", simulate]
    if extra:
        cmd += extra
    cmd += [module + ".tla"]
    e = dict(os.environ)
    if env:
        e.update({k: str(v) for k, v in env.items()})
    t0 = time.time()
    r = TlcResult()
    try:
        p = subprocess.Popen(cmd, cwd=SPEC, env=e, stdout=subprocess.PIPE, stderr=subprocess.STDOUT, text=True)
    except OSError as ex:
        raise ToolError("cannot start TLC: %s" % ex)
    tail = []
    err_mode = False
    try:
        pending = None
        for line in p.stdout:
            line = line.rstrip("\n")
            # PrintT output; TLC's pretty printer may wrap a long tuple over
            # several lines: join them again
            if pending is not None:
                pending += " " + line.strip()
                if line.rstrip().endswith(">>"):
                    r.prints.append(pending)
                    pending = None
                continue
            if line.startswith("<<"):
                if line.rstrip().endswith(">>"):
                    r.prints.append(line)
                else:
                    pending = line.strip()
                continue
            tail.append(line)
            if len(tail) > 400:
                tail = tail[-200:]
            m = _stat_re.match(line)
            if m:
                r.generated = int(m.group(1).replace(",", ""))
                r.distinct = int(m.group(2).replace(",", ""))
            if line.startswith("The depth of the complete state graph search is"):
                r.depth = int(re.findall(r"\d+", line)[0])
            if line.startswith("Error:"):
                r.errors.append(line)
                m2 = re.match(r"Error: Invariant (\S+) is violated", line)
                if m2:
                    r.violated.append(m2.group(1))
                elif "Assumption" in line and "is false" in line:
                    r.violated.append("ASSUME " + line)
                elif "Temporal properties were violated" in line or "Action property" in line:
                    r.violated.append(line)
            if (time.time() - t0) > timeout:
                p.kill()
                raise ToolError("TLC timeout on %s" % module)
        p.wait()
    finally:
        if p.poll() is None:
            p.kill()
    r.wall = time.time() - t0
    r.raw_tail = "\n".join(tail[-60:])
    done = any("Model checking completed. No error has been found." in l or
               "Finished in" in l for l in tail)
    if r.errors and not r.violated:
        if not quiet:
            sys.stdout.write(r.raw_tail + "\n")
        detail = next((l for l in tail if l.startswith(("Overflow", "Attempted", "The exception", "In evaluation"))), "")
        raise ToolError("TLC failed on %s: %s %s" % (module, r.errors[0], detail))
    if not done:
        sys.stdout.write(r.raw_tail + "\n")
        raise ToolError("TLC did not finish on %s" % module)
    r.ok = not r.errors
    return r


def parse_print(line):
    """Parses a TLC-printed tuple of strings / integers, e.g.
    <<"BAD", 3, "k", 7, "{\\"a\\":1}">>  ->  ["BAD", 3, "k", 7, '{"a":1}']"""
    s = line.strip()
    assert s.startswith("<<") and s.endswith(">>"), s
    s = s[2:-2].strip()
    out = []
    i = 0
    n = len(s)
    while i < n:
        c = s[i]
        if c in " ,":
            i += 1
        elif c == '"':
            j = i + 1
            buf = []
            while j < n and s[j] != '"':
                if s[j] == "\\" and j + 1 < n:
                    nx = s[j + 1]
                    buf.append({"n": "\n", "t": "\t", "r": "\r", "f": "\f"}.get(nx, nx))
                    j += 2
                else:
                    buf.append(s[j])
                    j += 1
            out.append("".join(buf))
            i = j + 1
        elif c == "<":
            # nested tuple: find matching >>
            depth = 0
            j = i
            while j < n:
                if s.startswith("<<", j):
                    depth += 1
                    j += 2
                elif s.startswith(">>", j):
                    depth -= 1
                    j += 2
                    if depth == 0:
                        break
                elif s[j] == '"':
                    j += 1
                    while j < n and s[j] != '"':
                        j += 2 if s[j] == "\\" else 1
                    j += 1
                else:
                    j += 1
            out.append(parse_print(s[i:j]))
            i = j
        else:
            j = i
            while j < n and s[j] not in ", ":
                j += 1
            tok = s[i:j]
            try:
                out.append(int(tok))
            except ValueError:
                out.append(tok)
            i = j
    return out


def split_file(path, nchunks, min_lines=200):
    """Splits an ndjson file into up to nchunks files; returns [(path, first_line_index)]."""
    with open(path) as f:
        lines = f.readlines()
    n = len(lines)
    if n == 0:
        return [], 0
    k = max(1, min(nchunks, n // min_lines if n >= min_lines else 1))
    per = (n + k - 1) // k
    res = []
    for c in range(k):
        part = lines[c * per:(c + 1) * per]
        if not part:
            break
        pp = "%s.part%d" % (path, c)
        with open(pp, "w") as f:
            f.writelines(part)
        res.append((pp, c * per))
    return res, n


def validate_trace(tv_module, trace_path, jvms=8, cfg="TV.cfg", heap="3g", timeout=3600, env=None):
    """Trace validation in bulk (fold) form: the TV_ module reads env TRACE,
    prints <<"TVSTAT", nrecords, nevents>>, one <<"BAD", index, key, ...>> per
    rejected record and <<"TVDONE", nbad>>.  Returns (nrecords, nevents, bad)
    where bad is a list of dicts with the global record index and the fields
    TLC printed."""
    parts, n = split_file(trace_path, jvms)
    if n == 0:
        return 0, 0, []
    lines = open(trace_path).readlines()

    budget = {"launches": 0}

    def run_part(pp, base, quiet=False):
        e = {"TRACE": pp}
        if env:
            e.update(env)
        r = tlc(tv_module, cfg, workers=1, env=e, heap=heap, timeout=timeout,
                tag="%s.%d" % (tv_module, base), quiet=quiet)
        stat = None
        done = None
        bad = []
        for ln in r.prints:
            t = parse_print(ln)
            if not t:
                continue
            if t[0] == "TVSTAT":
                stat = t
            elif t[0] == "TVDONE":
                done = t
            elif t[0] == "BAD":
                bad.append({"index": base + int(t[1]) - 1, "key": t[2], "info": t[3:]})
        if stat is None or done is None:
            sys.stdout.write(r.raw_tail + "\n")
            raise ToolError("%s did not complete on %s" % (tv_module, pp))
        if r.violated:
            sys.stdout.write(r.raw_tail + "\n")
            raise ToolError("%s: unexpected TLC error: %s" % (tv_module, r.violated))
        return stat, bad

    def isolate(plines, base, why):
        """A record the specification cannot even evaluate (arithmetic beyond the modelled
        range, an index outside a structure, a missing field) is not an observation it allows:
        find such records by bisection and report them as rejected."""
        if len(plines) == 1:
            try:
                key = json.loads(plines[0]).get("k")
            except ValueError:
                key = None
            return ["TVSTAT", 1, 1], [{"index": base, "key": str(key), "info": ["unevaluable", why[:300]]}]
        budget["launches"] += 2
        if budget["launches"] > 120:
            # too many to isolate one by one: report the chunk through its first record
            try:
                key = json.loads(plines[0]).get("k")
            except ValueError:
                key = None
            return ["TVSTAT", len(plines), len(plines)], [{"index": base, "key": str(key), "info": [
                "unevaluable", "one or more of the %d records from here on; %s" % (len(plines), why[:200])]}]
        mid = len(plines) // 2
        tot = [0, 0]
        bad = []
        for off, chunk in ((0, plines[:mid]), (mid, plines[mid:])):
            pp = "%s.iso%d_%d" % (trace_path, base + off, len(chunk))
            with open(pp, "w") as f:
                f.writelines(chunk)
            try:
                stat, b = run_part(pp, base + off, quiet=True)
            except ToolError as ex:
                if "TLC failed on" not in str(ex):
                    raise
                stat, b = isolate(chunk, base + off, str(ex))
            finally:
                if os.path.exists(pp):
                    os.unlink(pp)
            tot[0] += int(stat[1])
            tot[1] += int(stat[2]) if len(stat) > 2 else int(stat[1])
            bad += b
        return ["TVSTAT", tot[0], tot[1]], bad

    def one(part):
        pp, base = part
        try:
            stat, bad = run_part(pp, base, quiet=True)
        except ToolError as ex:
            # an evaluation error inside the TV module (not a parse error of the module itself)
            if "TLC failed on" not in str(ex) or "Parsing or semantic analysis failed" in str(ex):
                raise
            stat, bad = isolate(open(pp).readlines(), base, str(ex))
        os.unlink(pp)
        return stat, bad

    nrec = nev = 0
    allbad = []
    with cf.ThreadPoolExecutor(max_workers=max(1, len(parts))) as ex:
        for stat, bad in ex.map(one, parts):
            nrec += int(stat[1])
            nev += int(stat[2]) if len(stat) > 2 else int(stat[1])
            allbad += bad
    for b in allbad:
        b["record"] = json.loads(lines[b["index"]])
    return nrec, nev, allbad


# ------------------------------------------------------------------ findings
def load_findings():
    p = os.path.join(VERIF, "known_findings.json")
    if not os.path.exists(p):
        return []
    return json.load(open(p)).get("findings", [])


class Check:
    """One run of one property's check: collects coverage, violations and
    writes the evidence file."""

    def __init__(self, pid, tier):
        self.pid = pid
        self.tier = tier
        self.t0 = time.time()
        self.cov = {"states": 0, "transitions": 0, "traces_validated_against_impl": 0,
                    "samples": [], "evaluations": 0, "distinct_nontrivial": 0,
                    "exhaustive": False, "trusted_base": [], "tlc_runs": []}
        self.violations = []   # (key, replay_path)
        self.known_hits = []
        self.notes = []
        self.assumptions = []
        self.findings = [f for f in load_findings() if f.get("property") == pid]

    def add_mc(self, name, r, consts=None):
        self.cov["states"] += r.distinct
        self.cov["transitions"] += r.generated
        self.cov["tlc_runs"].append({"module": name, "distinct_states": r.distinct,
                                      "states_generated": r.generated, "depth": r.depth,
                                      "wall_s": round(r.wall, 1), "constants": consts or {}})
        log("[tlc] %s: %d generated, %d distinct, depth %d, %.1fs" % (name, r.generated, r.distinct, r.depth, r.wall))
        if r.violated:
            # a violated invariant of the *specification* is a tool-level
            # problem of the model, not an observation of the code
            sys.stdout.write(r.raw_tail + "\n")
            raise ToolError("specification-level property violated in %s: %s" % (name, r.violated))

    def sample(self, x):
        if len(self.cov["samples"]) < 6:
            self.cov["samples"].append(x)

    def note(self, s):
        self.notes.append(s)
        log("NOTE " + s)

    def violation(self, key, replay_obj, what=""):
        """Registers a rejected observation.  Known findings (matched by the
        finding's key predicate) are printed as KNOWN-FINDING and do not fail
        the check."""
        for f in self.findings:
            if f.get("status") == "known" and finding_matches(f, key, replay_obj):
                if f["key"] not in self.known_hits:
                    self.known_hits.append(f["key"])
                    log("KNOWN-FINDING: property=%s %s" % (self.pid, f.get("what", f["key"])))
                return False
        d = outdir("replays", self.pid)
        safe = re.sub(r"[^A-Za-z0-9_.-]", "_", str(key))[:80]
        path = os.path.join(d, safe + ".json")
        replay_obj = dict(replay_obj)
        replay_obj.setdefault("property", self.pid)
        replay_obj.setdefault("key", key)
        replay_obj.setdefault("what", what)
        with open(path, "w") as f:
            json.dump(replay_obj, f)
        self.violations.append((key, path))
        if len(self.violations) <= 20:
            log("VIOLATION property=%s replay=%s" % (self.pid, path))
            if what:
                log("  " + what[:600])
        return True

    def finish(self, level="model_checking"):
        cov = self.cov
        if not cov["samples"]:
            cov["samples"] = ["(no case recorded)"]
        cov["notes"] = self.notes
        cov["known_findings_hit"] = self.known_hits
        ev = {
            "property_id": self.pid,
            "tier": self.tier,
            "seed": seed(),
            "level": level,
            "coverage": cov,
            "assumptions": self.assumptions,
            "wall_s": round(time.time() - self.t0, 1),
            "violations": len(self.violations),
        }
        os.makedirs(EVID, exist_ok=True)
        with open(os.path.join(EVID, self.pid + ".json"), "w") as f:
            json.dump(ev, f, indent=1)
        if len(self.violations) > 20:
            log("... %d violations in total" % len(self.violations))
        log("[%s] %s: %d violation(s), %d states, %d transitions, %d traces validated, %.1fs" % (
            self.pid, self.tier, len(self.violations), cov["states"], cov["transitions"],
            cov["traces_validated_against_impl"], ev["wall_s"]))
        return 1 if self.violations else 0


def finding_matches(f, key, obj):
    """A finding's `match` is a dict of field -> value that must all be
    present (as substrings for strings) in the replay object / key."""
    m = f.get("match", {})
    if not m:
        return False
    blob = json.dumps(obj, sort_keys=True)
    for k, v in m.items():
        if k == "key_prefix":
            if not str(key).startswith(v):
                return False
        elif k == "contains":
            for s in (v if isinstance(v, list) else [v]):
                if s not in blob:
                    return False
        else:
            if obj.get(k) != v:
                return False
    return True


def write_lines(path, objs):
    with open(path, "w") as f:
        for o in objs:
            f.write(json.dumps(o, separators=(",", ":")) + "\n")


def count_lines(path):
    with open(path) as f:
        return sum(1 for _ in f)


# ------------------------------------------------------------------ pipelines
def exec_and_validate(chk, binpath, sub, tv_module, cases_path, jvms=8, what="history", env=None,
                      exec_args=None, as_notes=False):
    """cases --(real code)--> trace --(TLC)--> verdicts.  Registers a
    violation (with a replay file holding the case) per rejected record."""
    trace = cases_path + ".trace"
    t0 = time.time()
    try:
        run_harness(binpath, [sub, "exec", cases_path] + (exec_args or []), stdout_path=trace)
    except HarnessHang as h:
        # termination is part of every statement ("returns ..."): a call that does not come
        # back is a violation, reported with the case that hung
        case = None
        for ln in open(cases_path):
            try:
                c = json.loads(ln)
            except ValueError:
                continue
            if str(c.get("k")) == h.key:
                case = c
                break
        log("[exec] %s: case %s did not return within the watchdog limit" % (sub, h.key))
        chk.violation(h.key, {"sub": sub, "tv": tv_module, "case": case, "info": ["hang"], "exec_args": exec_args or []},
                      what="%s %s did not return (harness watchdog)" % (what, h.key))
        return 0, 0, []
    t1 = time.time()
    nrec, nev, bad = validate_trace(tv_module, trace, jvms=jvms, env=env)
    log("[tv] %s: %d records / %d events from the real code judged by %s in %.1fs (exec %.1fs): %d rejected" % (
        sub, nrec, nev, tv_module, time.time() - t1, t1 - t0, len(bad)))
    chk.cov["traces_validated_against_impl"] += nrec
    chk.cov["evaluations"] += nev
    cases = None
    if bad:
        # records carry the key of their case (plus "#n" when a case yields several records)
        cases = {}
        for ln in open(cases_path):
            try:
                cases[str(json.loads(ln).get("k"))] = ln
            except ValueError:
                pass
    for b in bad:
        case = json.loads(cases[str(b["key"]).split("#")[0]])
        if as_notes:
            # behaviour beyond the property's statement: reported, never an alarm
            chk.note("extra-coverage: %s %s rejected by %s: %s" % (what, b["key"], tv_module, json.dumps(b["info"])[:300]))
            continue
        chk.violation(b["key"], {"sub": sub, "tv": tv_module, "case": case, "info": b["info"],
                                 "exec_args": exec_args or []},
                      what="%s %s rejected by %s: %s" % (what, b["key"], tv_module, json.dumps(b["info"])[:400]))
    # a sample of what was validated
    with open(trace) as f:
        first = f.readline()
    if first:
        s = json.loads(first)
        chk.sample(json.loads(json.dumps(s)[:100000]) if len(first) < 4000 else {"k": s.get("k"), "truncated": first[:1500]})
    return nrec, nev, bad


def replay(pid, path, profile="release"):
    """Re-runs the single case of a replay file against the current tree."""
    obj = json.load(open(path))
    binpath = build_harness(profile)
    chk = Check(pid, os.environ.get("VERIF_TIER", "quick"))
    d = outdir("replay_tmp")
    cp = os.path.join(d, "case.ndjson")
    write_lines(cp, [obj["case"]])
    exec_and_validate(chk, binpath, obj["sub"], obj["tv"], cp, jvms=1, exec_args=obj.get("exec_args"))
    if chk.violations:
        return 1
    log("replay: case %s is accepted on the current tree" % obj.get("key"))
    return 0


def write_cfg(path, consts=None, spec="Spec", invariants=(), properties=(), view=None,
              action_constraints=(), constraints=(), deadlock=False, extra=""):
    with open(path, "w") as f:
        if consts:
            f.write("CONSTANTS\n")
            for k, v in consts.items():
                if isinstance(v, bool):
                    v = "TRUE" if v else "FALSE"
                f.write("  %s = %s\n" % (k, v))
        f.write("SPECIFICATION %s\n" % spec)
        if view:
            f.write("VIEW %s\n" % view)
        for i in invariants:
            f.write("INVARIANT %s\n" % i)
        for p in properties:
            f.write("PROPERTY %s\n" % p)
        for a in action_constraints:
            f.write("ACTION_CONSTRAINT %s\n" % a)
        for c in constraints:
            f.write("CONSTRAINT %s\n" % c)
        f.write("CHECK_DEADLOCK %s\n" % ("TRUE" if deadlock else "FALSE"))
        f.write(extra)
    return path
