"""C19 — PRNG has full period; distributions stay in range for every state."""
import json
import os

import vf


def run(tier):
    chk = vf.Check("C19", tier)
    binpath = vf.build_harness()
    d = vf.outdir("c19")
    cfg = vf.write_cfg(os.path.join(d, "MC_Rand.cfg"), None, invariants=["NeverZero", "FullCycle"])
    r = vf.tlc("MC_Rand", cfg, workers=1, gc="parallel", heap="4g")
    theorems = {}
    for ln in r.prints:
        t = vf.parse_print(ln)
        if t and t[0] == "THEOREM":
            theorems[t[1]] = (t[2] == "TRUE")
    need = ["FactorTableOK", "Invertible", "OrderDivides", "OrderExact", "Control"]
    if any(k not in theorems for k in need):
        raise vf.ToolError("MC_Rand did not report all theorems: %s" % theorems)
    chk.add_mc("MC_Rand", r, {})
    chk.cov["theorems"] = theorems
    if not all(theorems[k] for k in need):
        # the period claim fails on the SPECIFICATION's step map; conformance below decides
        # whether the code's step still equals it
        raise vf.ToolError("period theorem false on the specification: %s" % theorems)
    cases = os.path.join(d, "cases.ndjson")
    vf.run_harness(binpath, ["rand", "gen", "--seed", vf.seed(), "--tier", tier], stdout_path=cases)
    # "hard" states for the rejection samplers: states from which many candidates in a row are
    # rejected.  The committed corpus (found by a long search of the same driver) plus a fresh
    # search (quick: 1.5 s, thorough: 100 s on all cores); the samples drawn from them are judged
    # like any other (inside the disk / ball).
    hard = os.path.join(d, "hard.ndjson")
    budget = ["1500", "8"] if tier == "quick" else ["100000", "16"]
    vf.run_harness(binpath, ["rand", "gen", "--seed", vf.seed(), "hard"] + budget, stdout_path=hard)
    corpus = os.path.join(vf.VERIF, "corpus", "rand_hard.ndjson")
    nh = 0
    maxtries = {"ball": 0, "disk": 0}
    with open(cases, "a") as f:
        for src in (corpus, hard):
            if not os.path.exists(src):
                continue
            for ln in open(src):
                h = json.loads(ln)
                maxtries[h["dist"]] = max(maxtries[h["dist"]], h["tries"])
                for dist in ([h["dist"], "p" + h["dist"]]):
                    f.write(json.dumps({"k": "h%s-%d" % (vf.seed(), nh), "op": "norm", "s": h["s"], "dist": dist, "kind": "in",
                                        "tries": h["tries"]}, separators=(",", ":")) + "\n")
                    nh += 1
    chk.cov["hard_states"] = {"cases": nh, "longest_rejection_run": maxtries}
    vf.exec_and_validate(chk, binpath, "rand", "TV_Rand", cases, jvms=8, what="observation")
    # also in a plain release build (no overflow checks: integer arithmetic wraps instead of panicking)
    vf.exec_and_validate(chk, vf.build_harness("plain"), "rand", "TV_Rand", cases, jvms=8, what="observation (plain release build)")
    # unit circle / sphere under the other float backends - also with libm AND mm switched on (libm has precedence)
    probe = os.path.join(vf.HARNESS, "floatprobe")
    bk = os.path.join(d, "unit_backends.ndjson")
    with open(bk, "w") as fw:
        for name, feats in (("libm", ["libm"]), ("libm+mm", ["libm", "mm"]), ("mm", ["mm"])):
            vf._built.pop(("release", probe, tuple(feats)), None)
            pb = vf.build_harness("release", crate=probe, features=feats, bin_name="floatprobe")
            fw.write(vf.run_harness(pb, [name, vf.seed(), "unit" if tier == "quick" else "unit-thorough"]))
    nrec, nev, badb = vf.validate_trace("TV_Rand", bk, jvms=2)
    vf.log("[tv] unit circle / sphere under the libm / libm+mm / mm backends: %d samples judged by TV_Rand: %d rejected" % (nrec, len(badb)))
    chk.cov["traces_validated_against_impl"] += nrec
    chk.cov["evaluations"] += nev
    for b in badb:
        chk.violation(b["key"], {"sub": "floatprobe-unit", "record": b["record"]},
                      what="observation %s rejected by TV_Rand: %s" % (b["key"], json.dumps(b["record"])[:300]))
    chk.cov["distinct_nontrivial"] = chk.cov["traces_validated_against_impl"]
    chk.cov["rule"] = ("TLC: order of the step matrix over GF(2) (T^(2^64)=T, T^((2^64-1)/p)#I for the 7 prime factors, "
                       "explicit inverse, negative control) + exhaustive orbit of a 16-bit analogue; real code: next_bits on "
                       "the 64 basis states, special and random states judged against the specification's step; "
                       "Uniform<f32> over a strided (thorough: complete 2^23) mantissa sweep and the extreme mantissas for 14 "
                       "ranges, Uniform<i32>, Bernoulli at and beyond the ends on extreme-output states, disk/ball/circle/"
                       "sphere norms, composite distributions against scalar draws, reproducibility")
    chk.cov["trusted_base"] = ["TLC + CommunityModules (Bitwise)", "harness/src/rand.rs recorder; the inverse step used "
                               "to pick states by their output; min/max aggregation of sweeps (monotone keys)"]
    chk.assumptions = ["the identity of the code's step with the specification's T rests on agreement on a basis plus "
                       "random states (the map is linear)", "norms judged at 1e-3"]
    return chk.finish()


def replay(path):
    obj = json.load(open(path))
    if obj.get("sub") == "floatprobe-unit":
        # the "case" is a feature build of the probe: re-run the whole quick check
        return run("quick")
    return vf.replay("C19", path)
