"""C06 — hidden-surface removal is independent of submission order."""
import os

import vf

CONS = {"quick": {"NT": 3, "NP": 3}, "thorough": {"NT": 3, "NP": 4}}


def run(tier):
    return finish06(run_common(tier, "C06", "c06"))


def run_common(tier, pid, mode):
    chk = vf.Check(pid, tier)
    binpath = vf.build_harness()
    d = vf.outdir(pid.lower())
    if mode == "c06":
        cfg = vf.write_cfg(os.path.join(d, "MC_Target.cfg"), CONS[tier], invariants=["Confluence", "CountersExact"])
        r = vf.tlc("MC_Target", cfg, workers=8, gc="parallel", heap="8g")
        chk.add_mc("MC_Target/Confluence", r, CONS[tier])
        cfg = vf.write_cfg(os.path.join(d, "MC_TargetP.cfg"), {"NT": 3, "NP": 2}, spec="SpecFlags",
                           invariants=["PainterOK"])
        r = vf.tlc("MC_Target", cfg, workers=8, gc="parallel", heap="8g", tag="MC_TargetP")
        chk.add_mc("MC_Target/Painter", r, {"NT": 3, "NP": 2})
    else:
        cons = {"NT": 2, "NP": 2} if tier == "quick" else {"NT": 3, "NP": 2}
        cfg = vf.write_cfg(os.path.join(d, "MC_TargetF.cfg"), cons, spec="SpecFlags", invariants=["FlagsOK"])
        r = vf.tlc("MC_Target", cfg, workers=8, gc="parallel", heap="8g", tag="MC_TargetF")
        chk.add_mc("MC_Target/Flags", r, cons)
    chk.cov["exhaustive"] = True
    cases = os.path.join(d, "cases.ndjson")
    n = {"quick": 60, "thorough": 800}[tier]
    vf.run_harness(binpath, ["target", "gen", "--seed", vf.seed(), "--tier", tier, "--n", n, mode], stdout_path=cases)
    nrec, nhist, bad = vf.exec_and_validate(chk, binpath, "target", "TV_Target", cases, jvms=10, what="scene")
    if mode in ("c06", "c07"):
        # one render call of more than 2^16 triangles (most of them cover no pixel centre)
        big = os.path.join(d, "bigcall.ndjson")
        vf.run_harness(binpath, ["target", "gen", "--seed", vf.seed(), "--tier", tier, "bigcall"], stdout_path=big)
        nb, _, _ = vf.exec_and_validate(chk, binpath, "target", "TV_TargetBig", big, jvms=1, what="very large call")
        nhist += nb
    chk.cov["traces_validated_against_impl"] = nhist
    chk.cov["scenes"] = nrec
    chk.cov["distinct_nontrivial"] = nhist
    chk.cov["samples"] = [{"scene_key": "s%d-0" % vf.seed(), "note": "see out/%s/cases.ndjson.trace for full records" % pid.lower()}] + \
        [{"k": s.get("k"), "truncated": s.get("truncated", "")[:600]} if isinstance(s, dict) else s for s in chk.cov["samples"]][:2]
    chk.cov["trusted_base"] = ["TLC + CommunityModules", "harness/src/target.rs recorder (footprints, planes, stats)"]
    return chk


def finish06(chk):
    chk.cov["rule"] = ("seeded lattice scenes of 2-4 overlapping / interpenetrating clip-space triangles (some crossing "
                       "frustum planes, every 5th with disjoint depth ranges); for each scene every permutation x every "
                       "partition into render calls x random sort settings (4 triangles: sampled) is rendered through "
                       "render()/Batch::render() and the planes after every call are judged by TLC against the Target "
                       "state machine fed with the footprints of the single triangles; one trace = one history")
    chk.assumptions = ["footprints of single triangles are taken from the implementation (C04/C05 decide their correctness)",
                       "pixels where two fragments tie exactly in depth are excluded, as the statement says",
                       "scenes in which a single triangle draws a pixel twice or yields NaN depth are skipped (counted)"]
    return chk.finish()
