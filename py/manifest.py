#!/usr/bin/env python3
"""Regenerates /verif/MANIFEST.json from the table below (kept in one place so
that the manifest stays valid while checks are added)."""
import json
import os

VERIF = os.path.dirname(os.path.dirname(os.path.abspath(__file__)))

TRUST = "TLC 1.8 + CommunityModules; the Rust recorder in harness/src (records, never judges)"

CHECKS = {
    "C11": dict(
        technique="TLA+ state machine Buf2 (views as windows onto one array); TLC exhaustive small-scope model "
                  "checking + export of every transition for replay on the real code + trace validation of recorded histories",
        text="TLC explores the Buf2 relation exhaustively in small scope (frame condition, nested visibility, "
             "rows/index agreement, totality and sharpness of the relation), every transition is replayed on the real "
             "Buf2/Slice2/MutSlice2, and seeded random long histories recorded from the real code are validated by TLC "
             "against the same relation.",
        design="DESIGN.md §5 C11",
        note=TRUST + "; element type i32; empty views may panic where the statement is silent"),
    "C13": dict(
        technique="TLA+ spec of the PNM language (Encode/WellFormed/Decode over byte sequences); TLC enumerates a "
                  "token-level grammar state machine, checks Decode.Encode=id and text=binary on the spec, exports every "
                  "file for replay; trace validation of recorded decode/round-trip calls",
        text="Every file of the token-level grammar model (right and wrong header spellings, truncated/surplus data) is "
             "decoded by the real parser and judged by TLC against the byte-level relation; random images in all four "
             "formats, strided round trips, mutated and arbitrary byte strings are judged the same way.",
        design="DESIGN.md §5 C13",
        note=TRUST + "; maxval 255; exact judgement up to 4096 pixels"),
    "C14": dict(
        technique="TLA+ spec of the OBJ language (lines, tokens, literals, index groups) over byte sequences; TLC "
                  "enumerates a line-level file-writing state machine and exports every file for replay; trace "
                  "validation of recorded parse+build calls",
        text="Every file of the line-level model (all orders of vertex, face and decoration lines with right and wrong "
             "index tokens) is parsed and built by the real code and judged by TLC against the byte-level relation "
             "(total, index-safe, faithful for well-formed text); random well-formed meshes, mutated files and random "
             "bytes are judged the same way.",
        design="DESIGN.md §5 C14",
        note=TRUST + "; exact coordinate comparison on a lattice of short literals"),
    "C12": dict(
        technique="TLA+ relation Tex over exactly decoded f32 coordinates (spec/F32.tla); TLC checks sampler agreement "
                  "and containment over a size x coordinate lattice and exports it; trace validation of recorded "
                  "sampler calls",
        text="TLC enumerates texture sizes x a coordinate lattice (quarters, +-0, the 2^31 boundary, huge, inf, NaN), "
             "checks on the relation that the three samplers agree in range and never leave the texture, and exports "
             "every point; the real samplers (absolute and relative entry points, owned and sub-region textures) are "
             "run on those points and on seeded random f32 bit patterns (also nested sub-regions, and the samplers built under the "
             "no-feature, libm and micromath float backends), and every call is judged by TLC.",
        design="DESIGN.md §5 C12",
        note=TRUST + "; f32 decoding in harness/src/util.rs"),
    "C06": dict(
        technique="TLA+ state machine Target (depth-buffered render target over abstract fragments); TLC proves confluence "
                  "over every history (order, partition, sort) in small scope and the painter equivalence; trace "
                  "validation of recorded render histories against the same machine",
        text="TLC explores every history (every partition into calls, every order, every sort setting with the sort key "
             "left nondeterministic) of small abstract scenes and checks that the final planes are the per-pixel nearest "
             "fragments, and that back-to-front painting over disjoint depth ranges equals the depth-buffered image; real "
             "scenes are rendered under all permutations/partitions/sort settings and every recorded history is replayed "
             "by TLC on the state machine fed with the observed single-triangle footprints.",
        design="DESIGN.md §5 C06",
        note=TRUST + "; footprints of single triangles come from the implementation and must satisfy Target!SceneOK (equal to the scanlines handed to the target)"),
    "C07": dict(
        technique="TLA+ state machine Target with context flags and statistics; TLC checks mask/test/discard/cull/counter "
                  "laws over all flag combinations in small scope; trace validation of recorded flag histories (planes "
                  "and accumulated statistics after every call)",
        text="TLC checks the flag laws of the Target machine for every context combination, order and small scene; real "
             "histories of render calls under random flag combinations, both target kinds, both vertex orders, mirrored "
             "viewports and both front doors are recorded (planes + statistics after each call) and validated by TLC; "
             "facing is decided by TLC from exact lattice determinants. Extra coverage (notes only): the Stats accumulator "
             "(Stats.tla) and the render-batch builder as a typestate machine (BatchB.tla): TLC-generated histories are "
             "rendered to Rust functions, compiled, run on the real builder and judged by TV_BatchB.",
        design="DESIGN.md §5 C07",
        note=TRUST + "; footprints and clip piece counts of single triangles come from the implementation; footprints must satisfy Target!SceneOK"),
    "C04": dict(
        technique="TLA+ relation Raster (exact integer edge functions on pixel-centre lattices, 0.001 px band); TLC checks "
                  "order-freedom, shared-edge and partition theorems of the relation; trace validation of every recorded "
                  "tri_fill call on exhaustive and random lattices",
        text="TLC checks on the relation itself that coverage is independent of vertex order, that triangles sharing an "
             "edge never both claim a pixel and that a cut triangle leaves no gap; the real tri_fill is run on every "
             "ordered vertex triple of the half-pixel lattice (incl. off-grid shifts) and on random finer lattices, and "
             "every recorded scanline list is judged by TLC (must-cover, must-not-cover, row order, span length).",
        design="DESIGN.md §5 C04",
        note=TRUST + "; band widened to the L1 bound"),
    "C05": dict(
        technique="TLA+ relation Raster (exact rational interpolation plane via edge functions, perspective division); TLC "
                  "checks interpolation laws of the spec; trace validation of every recorded fragment (integer-scaled) "
                  "against the exact plane with the statement's tolerance",
        text="TLC checks that the spec's plane reproduces vertex values and stays within their range; every fragment the "
             "real tri_fill produces on the exhaustive half-pixel lattice and on random small lattices (five attribute "
             "types, w ratios up to 10:1) is judged by TLC: position at the pixel centre, depth and every attribute "
             "component within 0.5 % of range of the exact rational value, all finite.",
        design="DESIGN.md §5 C05",
        note=TRUST + "; observations scaled to integers by the harness (rounding widened in the tolerance)"),
    "C03": dict(
        technique="TLA+ relation Clip over barycentric coordinates with exact integer plane distances; TLC model-checks "
                  "the relation against an exact rational Sutherland-Hodgman reference (accepts the ideal output, rejects "
                  "broken ones); trace validation of recorded clip calls",
        text="TLC runs an exact rational Sutherland-Hodgman over representative lattice triangles and checks that the "
             "relation accepts its output and rejects outputs with a dropped or reversed triangle; the real clipper is run "
             "on random lattice triangles (w of either sign, on-plane vertices), singly and in batches, and every output "
             "is judged by TLC: feasibility, winding, tight boundary, sampled membership, attribute linearity, identity, "
             "emptiness and batch independence.",
        design="DESIGN.md §5 C03",
        note=TRUST + "; barycentric least-squares solve and bitwise batch comparison in harness/src/clip.rs"),
    "C01": dict(
        technique="TLA+ definition Pipeline of the ideal image by exact homogeneous rasterisation (no clipping, no scan "
                  "conversion); TLC proves its agreement with the independent screen-space Raster formulation on a small "
                  "lattice; trace validation of every pixel of recorded images",
        text="TLC checks exhaustively on a small lattice that the homogeneous (clip-space) definition of visibility, "
             "reciprocal depth and attribute agrees exactly with the screen-space edge-function formulation; real lattice "
             "scenes (w of either sign, any planes crossed, several scales, layered occlusion) are rendered through all "
             "three front doors and both target kinds, and TLC judges every unambiguous pixel against the exact image.",
        design="DESIGN.md §5 C01",
        note=TRUST + "; attribute smuggling, integer scaling and fan-edge extraction in harness/src/pipe.rs"),
    "C02": dict(
        technique="TLA+ model Envelope of the clip/divide/viewport/round chain with nondeterministic +-1 unit rounding "
                  "(design-level safety of span indexing), plus trace validation of recorded render calls over the "
                  "statement's float domain (panic, NaN, scanline and touched-pixel bounding boxes vs viewport)",
        text="TLC explores every rounding outcome of the numeric chain for boundary inputs and shows span indices stay "
             "inside the viewport (and finds the exact margin where they would not); seeded triangle soups with adversarial "
             "values are rendered through the library's own projection/viewport matrices under every flag combination, "
             "with a wrapper target recording every scanline, and TLC judges each call.",
        design="DESIGN.md §5 C02",
        note=TRUST + "; bounding-box projection of scanlines/touched pixels in harness/src/pipe.rs"),
    "C19": dict(
        technique="TLA+ spec Rand: the xorshift step as a GF(2)-linear map; TLC evaluates the order theorems (T^(2^64)=T, "
                  "cofactor powers # I, explicit inverse) and exhaustively explores a 16-bit analogue; trace validation of "
                  "the real step on a basis and of the distributions' range relations",
        text="TLC proves on the specification's step matrix that its order is exactly 2^64-1 (so the non-zero states form "
             "one cycle and zero is unreachable), validates the method on an exhaustively explored 16-bit analogue, and "
             "judges the real next_bits on a basis of the state space plus random states, full/strided mantissa sweeps of "
             "Uniform<f32> over a family of ranges, Uniform<i32>, Bernoulli at the ends, unit disk/ball/circle/sphere and "
             "the component order of composite distributions.",
        design="DESIGN.md §5 C19",
        note=TRUST + "; state inversion and min/max aggregation in harness/src/rand.rs"),
    "C16": dict(
        technique="TLA+ relation Color on observations (round trips, ranges, gray and hue laws, byte-lane packing, clamping, "
                  "saturation) plus a TLA+ transcription of the 8-bit HSL algorithms that TLC explores over all 2^24 triples "
                  "(thorough); trace validation of exhaustive 8-bit row sweeps and float grids",
        text="TLC proves the 8/255 round-trip bound, totality and the gray laws for the transcribed 8-bit algorithms over "
             "every triple, and judges the real code at property level: all 2^24 RGB and HSL 8-bit triples (aggregated per "
             "row; quick: sub-lattice), float round trips on the k/24 and k/60 grids plus random and boundary-adjacent "
             "triples, packing byte order lane by lane, float-to-u8 clamping and saturating addition; the float conversions "
             "also under the no-feature, libm and micromath builds of the crate.",
        design="DESIGN.md §5 C16",
        note=TRUST + "; per-row aggregation and 2^20 scaling in harness/src/color.rs"),
    "C20": dict(
        technique="TLA+ spec Float over exactly decoded f32 values (floor/abs exact, rem_euclid range+congruence, per-backend "
                  "bounds against std); TLC checks the floor specification and the truncate-and-adjust algorithm on a "
                  "structured lattice; trace validation of four feature builds of a probe, with consumers joined across builds",
        text="TLC checks the exact floor definition and contrasts two floor algorithms over all signs, exponents and "
             "significand patterns; the probe is built against retrofire-core with no fp feature, libm, mm and std, and "
             "every recorded call (exact functions on structured and random bit patterns, approximate ones against std in "
             "the same process) is judged by TLC; scanline digests, texels, normalised vectors and wrapped angles are "
             "joined across the four builds and must agree.",
        design="DESIGN.md §5 C20",
        note=TRUST + "; std's libm on this machine is the oracle the statement names"),
    "C09": dict(
        technique="TLA+ state machine Xform: the transform monoid over exact integer affine matrices (generators defined "
                  "geometrically); TLC checks composition, determinant and inverse laws on every path and exports every "
                  "path; trace validation of the real constructors / compose / then / inverse / determinant / transpose",
        text="TLC explores every product of up to 2 (thorough: 3) of 16 integer generators composed on either side, checks "
             "composition-as-sequencing, multiplicative determinants, adjugate inverses and orthogonality on the spec, and "
             "exports each path; the real code rebuilds each path with its constructors through compose and then, and its "
             "matrix, probe images, determinant, inverse, both inverse compositions and transpose are judged by TLC against "
             "the exact product; rotations by many turns must have the sine and cosine of the same angle as entries; "
             "orient_y/z are judged on lattice vectors against exact integer cross products. Extra coverage (notes only): "
             "the vector / point algebra (VecAlg.tla).",
        design="DESIGN.md §5 C09",
        note=TRUST + "; known finding: apply() on vectors includes the translation"),
    "C18": dict(
        technique="TLA+ relational spec Angle (unit ratios, wrap congruence, magnitude arithmetic, polar/spherical norm, "
                  "range, quadrant/octant and round-trip relations, Pythagorean exact cases); TLC checks the wrap relation "
                  "accepts the ideal answer and rejects neighbours on an integer-degree lattice; trace validation of sweeps",
        text="TLC shows on every integer angle over three revolutions and six intervals that the wrap relation accepts "
             "lo + ((a - lo) mod period) and rejects answers one period or a degree off; the real Angle, PolarVec and "
             "SphericalVec operations are swept over many revolutions, intervals, magnitudes and Pythagorean directions in "
             "all quadrants/octants, and every observation (scaled integers) is judged by TLC.",
        design="DESIGN.md §5 C18",
        note=TRUST + "; std atan2 names the Pythagorean angles"),
    "C17": dict(
        technique="TLA+ spec Spline (exact integer Bernstein / De Casteljau / Horner forms on a dyadic lattice, segment "
                  "selection) and the flattening stack machine; TLC checks evaluator agreement, derivative and hull laws "
                  "over all small control polygons and the machine under every halt oracle; trace validation incl. replay "
                  "of recorded halt answers through the machine",
        text="TLC checks for every control polygon in {-2..2}^4 and t = k/64 that the three evaluators agree, the "
             "derivative identity and hull containment hold and spline segments join, and explores the flattening machine "
             "under every halt oracle to a depth bound; the real evaluators, tangents and splines are judged on seeded "
             "polygons of five coordinate types, and approximate() is run with a recording predicate whose answers TLC "
             "replays through the machine to judge count, order, end points, curve points and the error vectors shown.",
        design="DESIGN.md §5 C17",
        note=TRUST + "; recording closure and 1024 scaling in harness/src/spline.rs"),
    "C15": dict(
        technique="TLA+ predicates Mesh (index validity, watertightness as directed class-edge pairing, Euler characteristic, "
                  "winding / normal flags) and a TLA+ model of the lathe's ring layout; TLC proves the topology clauses on the "
                  "model for every sector / point count and shape class; trace validation of every real solid",
        text="TLC checks on the ring-layout model that spheres, capsules, capped cylinders and cones are closed with Euler "
             "characteristic 2 and tori with 0 for every count in range, with boundary only where expected for open "
             "surfaces; every real solid over the same parameter ranges (plus Platonic solids, boxes and partial azimuth "
             "lathes) is built, its positions clustered into classes, and TLC judges its faces and flags.",
        design="DESIGN.md §5 C15",
        note=TRUST + "; clustering and geometric flag computation in harness/src/mesh.rs (f64)"),
    "C08": dict(
        technique="TLA+ spec Proj: view volumes, pinhole images, depth bounds/order, viewport and Rect algebra, camera "
                  "confinement and rigid first-person transforms as exact integer/rational geometry (no matrix formulas); TLC "
                  "checks that the relation accepts the textbook matrix and rejects broken ones on a lattice; trace validation",
        text="TLC checks on a lattice that the geometric relation accepts the exact textbook perspective matrix and rejects "
             "it with an inverted aspect or swapped depth; the real perspective / orthographic / viewport matrices, "
             "Rect::intersect, Camera (dims, corner mapping, pinhole pixel, confinement of drawing to requested /\\ frame) and "
             "FirstPerson (rigidity, position to origin, target onto +z, translation along right/up/horizontal forward for "
             "headings incl. the poles) are swept over lattice parameters and judged by TLC.",
        design="DESIGN.md §5 C08",
        note=TRUST + "; std atan2 names the first-person azimuths"),
    "C10": dict(
        technique="TLA+ typing relation Types over a finite universe of tagged types and operations (one- and two-step "
                  "programs, result-annotated ones); TLC checks inhabitedness of every misuse class, twins and renaming "
                  "invariance and exports every program; the compiler's verdict on each rendered program is validated by TLC",
        text="TLC enumerates every program of the universe (about 1600, incl. the library's named maps and camera modes), checks that each misuse class of the statement is "
             "inhabited, that every rejected program has a well-typed twin and that verdicts are invariant under renaming "
             "of bases; each program is rendered to a Rust function and type-checked by rustc against the real crate - the "
             "accepted module must compile cleanly, every rejected function must own a type error - and TLC compares the "
             "observed verdict table with the relation.",
        design="DESIGN.md §5 C10",
        note="TLC 1.8 + CommunityModules; rustc's diagnostics attributed by line span; rendering templates in py/c10.py"),
}

NOT_YET = "check not built yet in this round (see DESIGN.md §9 for the order of work)"


def main():
    props = [json.loads(l)["id"] for l in open(os.path.join(VERIF, "properties.jsonl"))]
    checks = []
    for pid in props:
        if pid not in CHECKS:
            continue
        c = CHECKS[pid]
        checks.append({
            "property_id": pid,
            "quick_cmd": "bin/check %s quick" % pid,
            "thorough_cmd": "bin/check %s thorough" % pid,
            "evidence_file": "/verif/evidence/%s.json" % pid,
            "replay_cmd_template": "bin/check %s --replay {path}" % pid,
            "engine": "tlc",
            "level_claimed": {"category": "model_checking", "text": c["text"], "design_ref": c["design"]},
            "level_note": c["note"],
            "technique": c["technique"],
        })
    man = {
        "version": 1,
        "setup_cmd": "bin/setup",
        "hooks": {
            "guard": "retrofire_verif",
            "enable": "no source hooks are needed: every observation is made through the public API; "
                      "the harness builds /repo/core and /repo/geom as path dependencies",
            "baseline_off_cmd": "cd /repo && cargo test --workspace --no-fail-fast --offline",
            "source_commits": [],
            "add_only": True,
        },
        "engines": [{"name": "tlc", "path": "/opt/veriftools/tla/tla2tools.jar",
                     "serves_properties": sorted(CHECKS),
                     "kind_free_text": "explicit-state model checker for the TLA+ specifications in spec/; "
                                       "also evaluates the trace-validation modules TV_*"}],
        "checks": checks,
        "notes": "Fix commits in /repo are listed in known_findings.json. bin/check <ID> quick|thorough; "
                 "VERIF_SEED and VERIF_TIER are honoured.",
        "not_applicable": [{"property_id": p, "reason": NOT_YET} for p in props if p not in CHECKS],
    }
    with open(os.path.join(VERIF, "MANIFEST.json"), "w") as f:
        json.dump(man, f, indent=1)
    print("MANIFEST.json: %d checks, %d not claimed" % (len(checks), len(man["not_applicable"])))


if __name__ == "__main__":
    main()
