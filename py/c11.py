"""C11 — 2D buffers and views act as windows onto a plain 2D array."""
import json
import os

import vf

CONSTS = {
    "quick": {"MaxW": 2, "MaxH": 2, "MaxDepth": 3, "MaxNest": 1},
    "thorough": {"MaxW": 2, "MaxH": 2, "MaxDepth": 4, "MaxNest": 2},
}


def write_cfg(path, consts, export):
    with open(path, "w") as f:
        f.write("CONSTANTS\n")
        for k, v in consts.items():
            f.write("  %s = %s\n" % (k, v))
        f.write("  Export = %s\n" % ("TRUE" if export else "FALSE"))
        f.write("SPECIFICATION Spec\nVIEW View\nINVARIANT Inv TotalAndSharp\nPROPERTY FrameProp\n")
        if export:
            f.write("ACTION_CONSTRAINT ExportAct\n")
        f.write("CHECK_DEADLOCK FALSE\n")


def run(tier):
    chk = vf.Check("C11", tier)
    binpath = vf.build_harness()
    d = vf.outdir("c11")
    consts = CONSTS[tier]
    # 1. model checking of the relation + export of its behaviours
    cfg = os.path.join(d, "MC_Buf2_%s.cfg" % tier)
    write_cfg(cfg, consts, True)
    r = vf.tlc("MC_Buf2", cfg, workers=8, gc="parallel", heap="8g")
    chk.add_mc("MC_Buf2", r, consts)
    gen_cases = os.path.join(d, "gen_cases.ndjson")
    n = 0
    with open(gen_cases, "w") as f:
        for ln in r.prints:
            t = vf.parse_print(ln)
            if not t or t[0] != "REPLAY":
                continue
            try:
                calls = json.loads(t[1])
            except Exception:
                raise vf.ToolError("garbled REPLAY line from TLC")
            f.write(json.dumps({"k": "g%d" % n, "calls": calls}, separators=(",", ":")) + "\n")
            n += 1
    vf.log("[gen] %d behaviours exported by TLC for replay" % n)
    chk.cov["spec_behaviours_replayed"] = n
    chk.cov["exhaustive"] = True
    chk.cov["rule"] = ("every transition of MC_Buf2 (constants above) is replayed on the real code as the "
                       "representative path to its source state plus the event; plus seeded random histories "
                       "(ops on buffers up to 12x9, three nesting levels, surplus backing data); "
                       "a record is one history, an evaluation is one event")
    # 1a. constructor sweep: wider dimensions / strides / backing lengths, depth one
    cc = {"MaxW": 4, "MaxH": 3} if tier == "quick" else {"MaxW": 6, "MaxH": 5}
    ccfg = vf.write_cfg(os.path.join(d, "MC_Buf2Ctor.cfg"), dict(cc, Export="TRUE"),
                        invariants=["FitsIsWindowInside", "Sharp", "Total", "ExportInv"])
    rc = vf.tlc("MC_Buf2Ctor", ccfg, workers=4, gc="parallel")
    chk.add_mc("MC_Buf2Ctor", rc, cc)
    ctor_cases = os.path.join(d, "ctor_cases.ndjson")
    nc = 0
    with open(ctor_cases, "w") as f:
        for ln in rc.prints:
            t = vf.parse_print(ln)
            if t and t[0] == "REPLAY":
                f.write(json.dumps({"k": "k%d" % nc, "calls": json.loads(t[1])}, separators=(",", ":")) + "\n")
                nc += 1
    if nc != rc.distinct:
        raise vf.ToolError("constructor sweep: %d exports for %d states" % (nc, rc.distinct))
    vf.log("[gen] %d constructor calls exported by TLC for replay" % nc)
    chk.cov["spec_behaviours_replayed"] = n + nc
    vf.exec_and_validate(chk, binpath, "buf2", "TV_Buf2", ctor_cases, jvms=4)
    # 1b. the implementation-shaped index arithmetic refines the window model (and the
    #     algorithms of the pinned tree do not: a negative control that the model bites)
    dim = 3 if tier == "quick" else 4
    for variant in ("fixed", "pinned"):
        icfg = os.path.join(d, "Buf2Impl_%s.cfg" % variant)
        with open(icfg, "w") as f:
            f.write('CONSTANTS\n  MaxDim = %d\n  Variant = "%s"\nSPECIFICATION Spec\nINVARIANT Refines\nCHECK_DEADLOCK FALSE\n' % (dim, variant))
        ri = vf.tlc("Buf2Impl", icfg, workers=4, gc="parallel", tag="Buf2Impl_" + variant)
        if variant == "fixed":
            chk.add_mc("Buf2Impl (refines Buf2)", ri, {"MaxDim": dim})
        elif not ri.violated:
            raise vf.ToolError("Buf2Impl no longer rejects the pinned tree's rows()/fill(): the refinement check lost its teeth")
        else:
            vf.log("[tlc] Buf2Impl/pinned: refinement violated as expected (negative control)")
    # 2. spec -> impl: replay every exported behaviour, judged by TV_Buf2
    vf.exec_and_validate(chk, binpath, "buf2", "TV_Buf2", gen_cases, jvms=10)
    # 3. impl -> spec: seeded random long histories
    rnd = os.path.join(d, "rnd_cases.ndjson")
    vf.run_harness(binpath, ["buf2", "gen", "--seed", vf.seed(), "--tier", tier], stdout_path=rnd)
    vf.exec_and_validate(chk, binpath, "buf2", "TV_Buf2", rnd, jvms=8)
    # the random histories also in a plain release build (no debug assertions, wrapping index arithmetic)
    vf.exec_and_validate(chk, vf.build_harness("plain"), "buf2", "TV_Buf2", rnd, jvms=8)
    # copies: clone() and clone_from() over every pair of shapes up to 4x3
    cl = os.path.join(d, "clone_cases.ndjson")
    vf.run_harness(binpath, ["bufclone", "gen", "--seed", vf.seed(), "--tier", tier], stdout_path=cl)
    vf.exec_and_validate(chk, binpath, "bufclone", "TV_Buf2Clone", cl, jvms=1, what="copy")
    chk.cov["distinct_nontrivial"] = chk.cov["traces_validated_against_impl"]
    # 4. growth beyond the statement: Rect as a set of points (intersect, contains, is_empty,
    #    extents, conversions); every pair of rects TLC explores is replayed; rejections are notes
    rcons = {"Export": "TRUE", "Wide": "TRUE" if tier == "thorough" else "FALSE"}
    rcfg = vf.write_cfg(os.path.join(d, "MC_Rect.cfg"), rcons, invariants=["Laws", "ExportInv"])
    rr = vf.tlc("MC_Rect", rcfg, workers=8, gc="parallel", heap="4g")
    chk.add_mc("MC_Rect (extra coverage)", rr, rcons)
    rect_cases = os.path.join(d, "rect_cases.ndjson")
    nr = 0
    with open(rect_cases, "w") as f:
        for ln in rr.prints:
            t = vf.parse_print(ln)
            if t and t[0] == "REPLAY":
                c = json.loads(t[1])
                c["k"] = "r%d" % nr
                f.write(json.dumps(c, separators=(",", ":")) + "\n")
                nr += 1
    before = (chk.cov["traces_validated_against_impl"], chk.cov["evaluations"])
    nrec, nev, badr = vf.exec_and_validate(chk, binpath, "rect", "TV_Rect", rect_cases, jvms=10, what="rect call", as_notes=True)
    chk.cov["traces_validated_against_impl"], chk.cov["evaluations"] = before
    chk.cov["extra_coverage"] = {"rect_pairs_replayed": nr, "rect_calls_validated": nrec, "rect_calls_rejected": len(badr)}
    chk.cov["trusted_base"] = ["TLC + CommunityModules (Json, IOUtils, SequencesExt)",
                               "harness/src/buf2.rs recorder (records results, never judges)"]
    chk.assumptions = ["element type i32 only", "empty (zero-width/height) views may panic on construction, "
                       "slicing and row indexing (DESIGN C11 Admits)"]
    return chk.finish()
