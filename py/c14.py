"""C14 — OBJ parsing is total and faithful."""
import json
import os

import vf


def poly_extra(chk, binpath, d, tier):
    """Growth beyond the statement: polygonal face lines (ObjPoly.tla: refuse, or triangulate as a fan).  Every file
    TLC enumerates is parsed by the real parse_obj / read_obj; rejections are notes, never alarms."""
    import collections
    cons = {"Export": "TRUE", "Wide": "TRUE" if tier == "thorough" else "FALSE"}
    cfg = vf.write_cfg(os.path.join(d, "MC_ObjPoly.cfg"), cons, invariants=["Laws", "ExportInv"])
    r = vf.tlc("MC_ObjPoly", cfg, workers=8, gc="parallel", heap="4g")
    chk.add_mc("MC_ObjPoly (extra coverage)", r, cons)
    cases = os.path.join(d, "poly_cases.ndjson")
    n = 0
    with open(cases, "w") as f:
        for ln in r.prints:
            t = vf.parse_print(ln)
            if t and t[0] == "REPLAY":
                bs = json.loads(t[1])["bytes"]
                f.write(json.dumps({"k": "y%d" % n, "via": "parse_obj" if n % 2 else "read_obj", "bytes": bs}, separators=(",", ":")) + "\n")
                n += 1
    vf.run_harness(binpath, ["obj", "exec", cases], stdout_path=cases + ".trace")
    nrec, nev, bad = vf.validate_trace("TV_ObjPoly", cases + ".trace", jvms=8)
    why = collections.Counter("%s (last face line: %s indices)" % (b["info"][0], b["info"][1]) for b in bad)
    vf.log("[tv] polygon faces: %d calls judged by TV_ObjPoly: %d rejected %s" % (nrec, len(bad), dict(why)))
    for w, c in sorted(why.items()):
        ex = next(b for b in bad if "%s (last face line: %s indices)" % (b["info"][0], b["info"][1]) == w)
        chk.note("extra-coverage: %d OBJ files with polygon faces rejected: %s, e.g. %s -> faces %s" % (c, w, ex["key"], str(ex["info"][2])[:120]))
    chk.cov.setdefault("extra_coverage", {}).update({"poly_files_replayed": n, "poly_calls_validated": nrec,
                                                     "poly_rejected_by_clause": dict(why)})


def run(tier):
    chk = vf.Check("C14", tier)
    binpath = vf.build_harness()
    d = vf.outdir("c14")
    consts = {"Level": 1, "MaxItems": 4, "Export": True} if tier == "quick" else \
             {"Level": 2, "MaxItems": 3, "Export": True}
    cfg = vf.write_cfg(os.path.join(d, "MC_Obj.cfg"), consts, invariants=["SpecConsistent", "ExportInv"])
    r = vf.tlc("MC_Obj", cfg, workers=8, gc="parallel", heap="8g")
    chk.add_mc("MC_Obj", r, consts)
    gen_cases = os.path.join(d, "gen_cases.ndjson")
    n = nwf = 0
    with open(gen_cases, "w") as f:
        for ln in r.prints:
            t = vf.parse_print(ln)
            if not t or t[0] != "REPLAY":
                continue
            try:
                bs = json.loads(t[1])
            except Exception:
                raise vf.ToolError("garbled REPLAY line from TLC")
            nwf += int(t[2])
            f.write(json.dumps({"k": "g%d" % n, "via": "parse_obj" if n % 3 else "read_obj", "bytes": bs},
                               separators=(",", ":")) + "\n")
            n += 1
    vf.log("[gen] %d files exported by TLC (%d well-formed)" % (n, nwf))
    if nwf == 0:
        raise vf.ToolError("vacuous model: no well-formed file generated")
    chk.cov.update({"spec_behaviours_replayed": n, "spec_wellformed_files": nwf, "exhaustive": True,
                    "rule": "every file of the line-level model MC_Obj (all orders of vertex/face/decoration lines, "
                            "right and wrong index tokens) is parsed by the real parse_obj/read_obj and built; plus "
                            "seeded random well-formed meshes (random layout, index forms, literal spellings), "
                            "mutated files and random bytes; one record = one call"})
    vf.exec_and_validate(chk, binpath, "obj", "TV_Obj", gen_cases, jvms=12, what="call")
    rnd = os.path.join(d, "rnd_cases.ndjson")
    vf.run_harness(binpath, ["obj", "gen", "--seed", vf.seed(), "--tier", tier,
                             "--n", 2400 if tier == "quick" else 40000], stdout_path=rnd)
    vf.exec_and_validate(chk, binpath, "obj", "TV_Obj", rnd, jvms=12, what="call")
    # also in a plain release build (no debug assertions, wrapping arithmetic): what a user ships
    plain = vf.build_harness("plain")
    vf.exec_and_validate(chk, plain, "obj", "TV_Obj", rnd, jvms=12, what="call (plain release build)")
    # large files (vertex counts around 2^8 and 2^16), judged on a summary
    big = os.path.join(d, "big_cases.ndjson")
    vf.run_harness(binpath, ["obj", "gen", "--seed", vf.seed(), "--tier", tier, "big"], stdout_path=big)
    vf.exec_and_validate(chk, binpath, "obj", "TV_ObjBig", big, jvms=2, what="large file")
    vf.exec_and_validate(chk, plain, "obj", "TV_ObjBig", big, jvms=2, what="large file (plain release build)")
    chk.cov["distinct_nontrivial"] = chk.cov["traces_validated_against_impl"]
    poly_extra(chk, binpath, d, tier)
    chk.cov["trusted_base"] = ["TLC + CommunityModules (Json, IOUtils)", "harness/src/obj.rs recorder"]
    chk.assumptions = ["coordinates are judged exactly for literals with <= 6 mantissa digits and a one-digit "
                       "exponent whose value*1024 is an integer < 2^24; other literals, polygons with more than "
                       "three indices and unsupported items are only checked for totality and index safety"]
    return chk.finish()
