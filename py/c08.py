"""C08 — projection, viewport and camera map points where geometry says."""
import json
import os

import vf


def run(tier):
    chk = vf.Check("C08", tier)
    binpath = vf.build_harness()
    d = vf.outdir("c08")
    cfg = vf.write_cfg(os.path.join(d, "MC_Proj.cfg"), None, invariants=["Geometry"])
    r = vf.tlc("MC_Proj", cfg, workers=8, gc="parallel", heap="8g")
    chk.add_mc("MC_Proj", r, {})
    cases = os.path.join(d, "cases.ndjson")
    vf.run_harness(binpath, ["proj", "gen", "--seed", vf.seed(), "--tier", tier], stdout_path=cases)
    vf.exec_and_validate(chk, binpath, "proj", "TV_Proj", cases, jvms=8, what="observation")
    # the first-person view transform under the other float backends (libm as tight as std; micromath loosely)
    probe = os.path.join(vf.HARNESS, "floatprobe")
    bk = os.path.join(d, "fpcam_backends.ndjson")
    with open(bk, "w") as fw:
        for name, feats in (("libm", ["libm"]), ("mm", ["mm"])):
            vf._built.pop(("release", probe, tuple(feats)), None)
            pb = vf.build_harness("release", crate=probe, features=feats, bin_name="floatprobe")
            fw.write(vf.run_harness(pb, [name, vf.seed(), "fpcam" if tier == "quick" else "fpcam-thorough"]))
    nrec, nev, badb = vf.validate_trace("TV_Proj", bk, jvms=2)
    vf.log("[tv] first-person view transforms under the libm / mm backends: %d judged by TV_Proj: %d rejected" % (nrec, len(badb)))
    chk.cov["traces_validated_against_impl"] += nrec
    chk.cov["evaluations"] += nev
    for b in badb:
        chk.violation(b["key"], {"sub": "floatprobe-fpcam", "record": b["record"]},
                      what="observation %s rejected by TV_Proj: %s" % (b["key"], json.dumps(b["record"])[:300]))
    chk.cov["distinct_nontrivial"] = chk.cov["traces_validated_against_impl"]
    chk.cov["rule"] = ("perspective: focal ratios {1/2,1,2} x aspects {1,4/3,1/2} x five near/far pairs x lattice points on, "
                       "just inside and just outside every face of the view volume, behind and on the eye plane, plus depth-"
                       "order pairs; orthographic boxes, viewports (empty and mirrored included) and Rect intersections with "
                       "unbounded sides over small integer ranges; cameras with requested viewports partly outside the frame "
                       "(dims, corner mapping, pinhole pixel of a world point, confinement of a drawn triangle); first-person "
                       "cameras over Pythagorean look directions incl. straight up/down and headings reached by rotate_to "
                       "(level, tilted, clamped at the poles) and look_at, then translate")
    chk.cov["trusted_base"] = ["TLC + CommunityModules", "harness/src/proj.rs recorder (4096 scaling)", "std atan2 names the azimuths"]
    chk.assumptions = ["lattice parameters; far/near up to 64 here (1000 in C02's float sweeps)",
                       "points within 1e-3 (relative) of a face of the view volume are not judged for inside/outside"]
    return chk.finish()


def replay(path):
    obj = json.load(open(path))
    if obj.get("sub") == "floatprobe-fpcam":
        # the "case" is a feature build of the probe: re-run the whole quick check
        return run("quick")
    return vf.replay("C08", path)
