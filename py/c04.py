"""C04 — scan conversion covers exactly the pixels whose centres are inside."""
import os

import vf

MCCONS = {"quick": {"G": 2}, "thorough": {"G": 2}}


def raster_pipeline(chk, tier, tv_module, pid):
    binpath = vf.build_harness()
    d = vf.outdir(pid.lower())
    lat = os.path.join(d, "lattice.ndjson")
    vf.run_harness(binpath, ["raster", "gen", "--seed", vf.seed(), "--tier", tier, "lattice"], stdout_path=lat)
    n1 = vf.exec_and_validate(chk, binpath, "raster", tv_module, lat, jvms=12, what="triangle")
    rnd = os.path.join(d, "random.ndjson")
    vf.run_harness(binpath, ["raster", "gen", "--seed", vf.seed(), "--tier", tier, "random"], stdout_path=rnd)
    n2 = vf.exec_and_validate(chk, binpath, "raster", tv_module, rnd, jvms=12, what="triangle")
    # the random triangles also in a plain release build (no debug assertions / overflow checks)
    vf.exec_and_validate(chk, vf.build_harness("plain"), "raster", tv_module, rnd, jvms=12, what="triangle (plain release build)")
    return n1, n2


def run(tier):
    chk = vf.Check("C04", tier)
    d = vf.outdir("c04")
    cfg = vf.write_cfg(os.path.join(d, "MC_Raster.cfg"), MCCONS[tier], invariants=["SharedEdge", "OrderFree", "Partition"])
    r = vf.tlc("MC_Raster", cfg, workers=8, gc="parallel", heap="8g")
    chk.add_mc("MC_Raster", r, MCCONS[tier])
    # the implementation-shaped scan conversion refines the relation on the whole lattice
    # (and a variant without the half-pixel rounding offset does not: negative control)
    g = 3 if tier == "quick" else 4
    for variant in ("ok", "nohalf"):
        icfg = os.path.join(d, "ScanImpl_%s.cfg" % variant)
        with open(icfg, "w") as f:
            f.write('CONSTANTS\n  G = %d\n  Variant = "%s"\nSPECIFICATION Spec\nINVARIANT RefinesRaster\nCHECK_DEADLOCK FALSE\n' % (g if variant == "ok" else 2, variant))
        ri = vf.tlc("ScanImpl", icfg, workers=8, gc="parallel", heap="8g", tag="ScanImpl_" + variant)
        if variant == "ok":
            chk.add_mc("ScanImpl (refines Raster)", ri, {"G": g})
        elif not ri.violated:
            raise vf.ToolError("ScanImpl without the half-pixel offset still refines Raster: the refinement check lost its teeth")
        else:
            vf.log("[tlc] ScanImpl/nohalf: refinement violated as expected (negative control)")
    raster_pipeline(chk, tier, "TV_RasterCov", "C04")
    # the public scan() iterator consumed through row-skipping adaptors
    binpath = vf.build_harness()
    sc = os.path.join(d, "scan.ndjson")
    vf.run_harness(binpath, ["raster", "gen", "--seed", vf.seed(), "--tier", tier, "scan"], stdout_path=sc)
    vf.exec_and_validate(chk, binpath, "raster", "TV_RasterScan", sc, jvms=6, what="scan() under an adaptor")
    chk.cov["exhaustive"] = True
    chk.cov["distinct_nontrivial"] = chk.cov["traces_validated_against_impl"]
    chk.cov["rule"] = ("every ordered vertex triple of the half-pixel lattice of a 3x3 (thorough: 4x4) pixel grid, an "
                       "eighth of them also shifted to negative coordinates, plus seeded random triangles on the 1/4, "
                       "1/2, 1/8 and 1/256 px lattices (flat tops/bottoms, slivers, sub-pixel); every tri_fill call is "
                       "recorded (scanlines, fragment counts) and judged by TLC with exact integer edge functions")
    chk.cov["trusted_base"] = ["TLC + CommunityModules", "harness/src/raster.rs recorder"]
    chk.assumptions = ["band of 0.001 px around edges, widened to the L1 bound", "coordinates within a few thousand lattice units"]
    return chk.finish()
