"""C15 — generated solids are closed, consistently wound and carry unit normals."""
import os

import vf


def run(tier):
    chk = vf.Check("C15", tier)
    binpath = vf.build_harness()
    d = vf.outdir("c15")
    consts = {"MaxSecs": 8, "MaxPts": 6} if tier == "quick" else {"MaxSecs": 12, "MaxPts": 9}
    cfg = vf.write_cfg(os.path.join(d, "MC_Lathe.cfg"), consts, invariants=["Topology"])
    r = vf.tlc("MC_Lathe", cfg, workers=8, gc="parallel", heap="8g")
    chk.add_mc("MC_Lathe", r, consts)
    chk.cov["exhaustive"] = True
    cases = os.path.join(d, "cases.ndjson")
    vf.run_harness(binpath, ["mesh", "gen", "--seed", vf.seed(), "--tier", tier], stdout_path=cases)
    vf.exec_and_validate(chk, binpath, "mesh", "TV_Mesh", cases, jvms=8, what="solid")
    chk.cov["distinct_nontrivial"] = chk.cov["traces_validated_against_impl"]
    chk.cov["rule"] = ("every sector count 3..8 (thorough: 16) x segment count 1..5 (10) of sphere, torus, cylinder, cone "
                       "(apex or base radius zero included), capsule (1-3 cap segments), capped and uncapped, three radii; "
                       "lathe cylinders over four partial azimuth ranges; the five Platonic solids and three boxes; TLC "
                       "judges indices, watertightness and Euler characteristic on faces + position classes, and the "
                       "winding / normal / surface flags")
    chk.cov["trusted_base"] = ["TLC + CommunityModules", "harness/src/mesh.rs: union-find clustering of positions (1e-4 of the "
                               "size), degeneracy / side-of-outward-reference / normal-side / on-surface flags in f64"]
    chk.assumptions = ["the Lathe model in MC_Lathe transcribes the ring layout (implementation-shaped; the real meshes are "
                       "judged by the Mesh predicates only)"]
    return chk.finish()
