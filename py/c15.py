"""C15 — generated solids are closed, consistently wound and carry unit normals."""
import json
import os

import vf


def run(tier):
    chk = vf.Check("C15", tier)
    binpath = vf.build_harness()
    d = vf.outdir("c15")
    consts = {"MaxSecs": 8, "MaxPts": 6} if tier == "quick" else {"MaxSecs": 12, "MaxPts": 9}
    cfg = vf.write_cfg(os.path.join(d, "MC_Lathe.cfg"), consts, invariants=["Topology"])
    r = vf.tlc("MC_Lathe", cfg, workers=8, gc="parallel", heap="8g")
    chk.add_mc("MC_Lathe", r, consts)
    chk.cov["exhaustive"] = True
    cases = os.path.join(d, "cases.ndjson")
    vf.run_harness(binpath, ["mesh", "gen", "--seed", vf.seed(), "--tier", tier], stdout_path=cases)
    vf.exec_and_validate(chk, binpath, "mesh", "TV_Mesh", cases, jvms=8, what="solid")
    # segment counts beyond 2^16, judged on a summary
    big = os.path.join(d, "big_cases.ndjson")
    vf.run_harness(binpath, ["mesh", "gen", "--seed", vf.seed(), "--tier", tier, "big"], stdout_path=big)
    vf.exec_and_validate(chk, binpath, "mesh", "TV_MeshBig", big, jvms=1, what="solid with a very large segment count")
    chk.cov["distinct_nontrivial"] = chk.cov["traces_validated_against_impl"]
    # growth beyond the statement: the mesh builder as a state machine (MeshB.tla); every behaviour TLC
    # explores is replayed on the real builder, plus seeded longer histories; rejections are notes
    mcons = {"MaxOps": 4 if tier == "quick" else 5, "Export": "TRUE"}
    mcfg = vf.write_cfg(os.path.join(d, "MC_MeshB.cfg"), mcons, invariants=["Laws", "ExportInv"], view="View")
    rm = vf.tlc("MC_MeshB", mcfg, workers=8, gc="parallel", heap="8g")
    chk.add_mc("MC_MeshB (extra coverage)", rm, mcons)
    bcases = os.path.join(d, "meshb_gen.ndjson")
    nb = 0
    with open(bcases, "w") as f:
        for ln in rm.prints:
            t = vf.parse_print(ln)
            if t and t[0] == "REPLAY":
                f.write(json.dumps({"k": "b%d" % nb, "ops": json.loads(t[1])}, separators=(",", ":")) + "\n")
                nb += 1
    rnd = os.path.join(d, "meshb_rnd.ndjson")
    vf.run_harness(binpath, ["meshb", "gen", "--seed", vf.seed(), "--tier", tier], stdout_path=rnd)
    extra = {"builder_behaviours_replayed": nb}
    for name, path in (("replayed", bcases), ("random", rnd)):
        vf.run_harness(binpath, ["meshb", "exec", path], stdout_path=path + ".trace")
        nrec, nev, badb = vf.validate_trace("TV_MeshB", path + ".trace", jvms=8)
        vf.log("[tv] meshb (%s): %d histories / %d calls judged by TV_MeshB: %d rejected" % (name, nrec, nev, len(badb)))
        extra["builder_histories_" + name] = nrec
        extra["builder_rejected_" + name] = len(badb)
        for b in badb[:5]:
            chk.note("extra-coverage: mesh builder history %s rejected at call %s: %s" % (b["key"], b["info"][0], str(b["info"][1])[:300]))
    chk.cov["extra_coverage"] = extra
    chk.cov["rule"] = ("every sector count 3..8 (thorough: 16) x segment count 1..5 (10) of sphere, torus, cylinder, cone "
                       "(apex or base radius zero included), capsule (1-3 cap segments), capped and uncapped, three radii; "
                       "lathe cylinders over four partial azimuth ranges; the five Platonic solids and three boxes; TLC "
                       "judges indices, watertightness and Euler characteristic on faces + position classes, and the "
                       "winding / normal / surface flags")
    chk.cov["trusted_base"] = ["TLC + CommunityModules", "harness/src/mesh.rs: union-find clustering of positions (1e-4 of the "
                               "size), degeneracy / side-of-outward-reference / normal-side / on-surface flags in f64"]
    chk.assumptions = ["the Lathe model in MC_Lathe transcribes the ring layout (implementation-shaped; the real meshes are "
                       "judged by the Mesh predicates only)"]
    return chk.finish()
