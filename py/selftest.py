"""Binding self-test (DESIGN §4): does each trace-validation module reject a
trace recorded from the real code after ONE observed value in it was altered?

For every subsystem a few hundred cases are generated, executed on the real
code and validated (must be accepted: control); then in every record one
numeric leaf that the case itself did not contain (i.e. an observation, or the
record's copy of an argument) is perturbed, and the corrupted records are
validated again.  Reported per module and per field: how many corruptions were
rejected.  A field whose corruption is never rejected is either informational
or unconstrained by the specification - both are listed, so that vacuity in a
TV module shows up here rather than in a missed defect.

Usage: python3 py/selftest.py [ID ...]     (writes out/selftest/summary.json)
"""
import collections
import json
import os
import random
import sys

import vf

# (property, subsystem, extra gen args, TV module, --n or None)
TABLE = [
    ("C01", "pipe", ["img"], "TV_Image", 150),
    ("C02", "pipe", ["safe"], "TV_Safe", 400),
    ("C03", "clip", [], "TV_Clip", 400),
    ("C04", "raster", ["random"], "TV_RasterCov", 300),
    ("C05", "raster", ["random"], "TV_RasterFrag", 300),
    ("C06", "target", ["c06"], "TV_Target", 8),
    ("C07", "target", ["c07"], "TV_Target", 8),
    ("C08", "proj", [], "TV_Proj", None),
    ("C09", "xform", [], "TV_Xform", 300),
    ("C11", "buf2", [], "TV_Buf2", None),
    ("C12", "tex", [], "TV_Tex", 300),
    ("C13", "pnm", [], "TV_Pnm", 300),
    ("C14", "obj", [], "TV_Obj", 300),
    ("C15", "mesh", [], "TV_Mesh", None),
    ("C16", "color", [], "TV_Color", None),
    ("C17", "spline", [], "TV_Spline", 400),
    ("C18", "angle", [], "TV_Angle", None),
    ("C19", "rand", [], "TV_Rand", None),
    ("C05x", "vary", [], "TV_Vary", 300),
    ("C07x", "stats", [], "TV_Stats", 200),
    ("C15x", "meshb", [], "TV_MeshB", 300),
    ("C11x", "rect", None, "TV_Rect", None),
    ("C09x", "vecalg", [], "TV_VecAlg", 400),
    # growth modules whose cases TLC exports: taken from the last run of the check (bin/check C13 / C14 quick)
    ("C13x", "pnm", "@c13/bitmap_cases.ndjson", "TV_PnmBitmap", None),
    ("C14x", "obj", "@c14/poly_cases.ndjson", "TV_ObjPoly", None),
]
MAXREC = 400
# record fields that re-encode the ARGUMENTS of the call (decoded f32 records, echoed inputs):
# altering them does not alter an observation, and may yield an ill-formed encoding
DERIVED_INPUT = {"tex": {"u", "v", "w", "h", "sub"}, "rand": {"lo", "hi"}, "angle": {"v", "vf"}}


def leaves(x, path=()):
    """numeric leaves of a JSON value as (path, value)"""
    if isinstance(x, bool):
        return
    if isinstance(x, int):
        yield path, x
    elif isinstance(x, list):
        for i, v in enumerate(x):
            yield from leaves(v, path + (i,))
    elif isinstance(x, dict):
        for k, v in x.items():
            if k != "k":
                yield from leaves(v, path + (k,))


def get(x, path):
    for p in path:
        if isinstance(x, dict):
            if p not in x:
                return None
            x = x[p]
        elif isinstance(x, list):
            if not isinstance(p, int) or p >= len(x):
                return None
            x = x[p]
        else:
            return None
    return x


def put(x, path, v):
    for p in path[:-1]:
        x = x[p]
    x[path[-1]] = v


def field_of(path):
    return ".".join(str(p) for p in path if not isinstance(p, int)) or "<top>"


def perturb(v, rng):
    if v in (0, 1):
        return 1 - v
    d = max(7, abs(v) // 3)
    return v + d if rng.random() < 0.5 else v - d


def run_one(pid, sub, extra, tv, n):
    binpath = vf.build_harness()
    d = vf.outdir("selftest")
    cases = os.path.join(d, "%s_%s.ndjson" % (pid, sub))
    if isinstance(extra, str) and extra.startswith("@"):
        src = os.path.join(os.path.dirname(d), extra[1:])
        if not os.path.exists(src):
            return {"property": pid, "tv": tv, "error": "no exported cases: run bin/check %s quick first" % pid[:3]}
        open(cases, "w").write(open(src).read())
    elif extra is None:
        # rect: pairs of rects (the real check takes them from MC_Rect)
        sides = [-99, 0, 1, 3]
        rr = random.Random(5)
        with open(cases, "w") as f:
            for i in range(300):
                f.write(json.dumps({"k": "r%d" % i, "a": [rr.choice(sides) for _ in range(4)], "b": [rr.choice(sides) for _ in range(4)]}) + "\n")
    else:
        args = [sub, "gen", "--seed", 3, "--tier", "quick"] + (["--n", n] if n else []) + extra
        vf.run_harness(binpath, args, stdout_path=cases)
    # keep the case file small
    lines = open(cases).read().splitlines()
    if len(lines) > MAXREC:
        step = len(lines) // MAXREC
        lines = lines[::step][:MAXREC]
        open(cases, "w").write("\n".join(lines) + "\n")
    bykey = {}
    for ln in lines:
        c = json.loads(ln)
        bykey[str(c.get("k"))] = c
    trace = cases + ".trace"
    vf.run_harness(binpath, [sub, "exec", cases], stdout_path=trace)
    recs = [json.loads(l) for l in open(trace).read().splitlines() if l.strip()]
    nrec, nev, bad = vf.validate_trace(tv, trace, jvms=4)
    control_bad = {b["index"] for b in bad}
    rng = random.Random(12345)
    if len(recs) > MAXREC:
        idx = sorted(rng.sample(range(len(recs)), MAXREC))
    else:
        idx = list(range(len(recs)))
    out = []
    meta = []
    for i in idx:
        if i in control_bad:
            continue        # (known finding of C09: the uncorrupted record is already rejected)
        rec = recs[i]
        case = bykey.get(str(rec.get("k")).split("#")[0], {})
        skip = DERIVED_INPUT.get(sub, set())
        cand = [(p, v) for p, v in leaves(rec) if (get(case, p) != v or get(case, p) is None) and p[0] not in skip]
        if not cand:
            continue
        # spread the corruptions over the fields
        byf = collections.defaultdict(list)
        for p, v in cand:
            byf[field_of(p)].append((p, v))
        f = rng.choice(sorted(byf))
        p, v = rng.choice(byf[f])
        r2 = json.loads(json.dumps(rec))
        put(r2, p, perturb(v, rng))
        out.append(json.dumps(r2, separators=(",", ":")))
        meta.append((rec.get("k"), f))
    ctrace = os.path.join(d, "%s_%s.corrupt.trace" % (pid, sub))
    open(ctrace, "w").write("\n".join(out) + "\n")
    try:
        n2, _, bad2 = vf.validate_trace(tv, ctrace, jvms=4)
    except vf.ToolError as e:
        return {"property": pid, "tv": tv, "error": str(e)[:300]}
    rej = {b["index"] for b in bad2}
    per = collections.defaultdict(lambda: [0, 0])
    for j, (k, f) in enumerate(meta):
        per[f][0] += 1
        if j in rej:
            per[f][1] += 1
    res = {"property": pid, "sub": sub, "tv": tv, "records": nrec, "control_rejected": len(control_bad),
           "corrupted": len(meta), "rejected": len(rej),
           "fields": {f: {"corrupted": a, "rejected": b} for f, (a, b) in sorted(per.items())},
           "never_rejected": sorted(f for f, (a, b) in per.items() if b == 0 and a >= 3)}
    return res


def main(argv):
    want = set(argv)
    results = []
    for pid, sub, extra, tv, n in TABLE:
        if want and pid not in want and pid.rstrip("x") not in want:
            continue
        r = run_one(pid, sub, extra, tv, n)
        results.append(r)
        if "error" in r:
            print("%-5s %-14s TOOL ERROR %s" % (pid, tv, r["error"]))
            continue
        print("%-5s %-14s control: %d/%d rejected; corrupted %d -> rejected %d (%.0f%%); never rejected: %s" % (
            pid, tv, r["control_rejected"], r["records"], r["corrupted"], r["rejected"],
            100.0 * r["rejected"] / max(1, r["corrupted"]), ", ".join(r["never_rejected"]) or "-"))
        sys.stdout.flush()
    d = vf.outdir("selftest")
    json.dump(results, open(os.path.join(d, "summary.json"), "w"), indent=1)
    return 0


if __name__ == "__main__":
    sys.exit(main(sys.argv[1:]))
