"""C05 — fragments carry correctly interpolated, finite depth and attributes."""
import os

import vf
import c04


def run(tier):
    chk = vf.Check("C05", tier)
    d = vf.outdir("c05")
    cfg = vf.write_cfg(os.path.join(d, "MC_RasterI.cfg"), {"G": 2}, spec="SpecI", invariants=["InterpLaws"])
    r = vf.tlc("MC_Raster", cfg, workers=8, gc="parallel", heap="8g", tag="MC_RasterI")
    chk.add_mc("MC_Raster/Interp", r, {"G": 2})
    (n1, f1, _), (n2, f2, _) = c04.raster_pipeline(chk, tier, "TV_RasterFrag", "C05")
    # the same fragments when a consumer skips the first columns of each span through Scanline::vs
    binpath = vf.build_harness()
    skip = os.path.join(d, "skip.ndjson")
    vf.run_harness(binpath, ["raster", "gen", "--seed", vf.seed(), "--tier", tier, "skip"], stdout_path=skip)
    vf.exec_and_validate(chk, binpath, "raster", "TV_RasterFrag", skip, jvms=8, what="triangle (columns skipped)")
    # spans and triangles hundreds of pixels long, judged on the fragments' positions
    long_ = os.path.join(d, "long.ndjson")
    vf.run_harness(binpath, ["raster", "gen", "--seed", vf.seed(), "--tier", tier, "long"], stdout_path=long_)
    vf.exec_and_validate(chk, binpath, "raster", "TV_RasterFrag", long_, jvms=4, what="long triangle")
    # growth beyond the statement (DESIGN §8): the Vary stepping iterators the rasteriser is built on;
    # rejections there are notes, not violations of C05
    cfgv = vf.write_cfg(os.path.join(d, "MC_Vary.cfg"), None, invariants=["Laws"])
    rv = vf.tlc("MC_Vary", cfgv, workers=2, gc="parallel")
    chk.add_mc("MC_Vary (extra coverage)", rv, {})
    vcases = os.path.join(d, "vary.ndjson")
    binpath = vf.build_harness()
    vf.run_harness(binpath, ["vary", "gen", "--seed", vf.seed(), "--tier", tier], stdout_path=vcases)
    nv, _, badv = vf.exec_and_validate(chk, binpath, "vary", "TV_Vary", vcases, jvms=4, what="vary call", as_notes=True)
    chk.cov["extra_coverage"] = {"vary_calls_validated": nv, "vary_calls_rejected": len(badv)}
    chk.cov["traces_validated_against_impl"] = n1 + n2
    chk.cov["fragments_judged"] = f1 + f2
    chk.cov["evaluations"] = f1 + f2
    chk.cov["distinct_nontrivial"] = n1 + n2
    chk.cov["exhaustive"] = True
    chk.cov["rule"] = ("the C04 lattice enumeration (half-pixel lattice, all ordered triples) and random triangles on the "
                       "1/4 px (4x4) and 1/2 px (8x8) lattices, with reciprocal depths from {1, 1/2, 1/4, 1/5, 1/10} and "
                       "integer attributes of types f32, Vec2, Vec3, Color3f, (f32, Vec2); every fragment (position, depth, "
                       "each attribute component, scaled to integers) is judged by TLC against the exact rational plane")
    chk.cov["trusted_base"] = ["TLC + CommunityModules", "harness/src/raster.rs recorder and integer scaling of observations"]
    chk.assumptions = ["observations are rounded to 1/1024 (attributes, positions) and 1/65536 (depth); the tolerance is "
                       "widened by two such units", "lattices small enough for 32-bit exact arithmetic in TLC"]
    return chk.finish()
