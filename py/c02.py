"""C02 — rendering never panics and never writes outside the viewport."""
import os

import vf


def run(tier):
    chk = vf.Check("C02", tier)
    binpath = vf.build_harness()
    d = vf.outdir("c02")
    consts = {"U": 16384, "Slop": 2, "Rects": "RectsDef"}
    cfg = os.path.join(d, "Envelope.cfg")
    with open(cfg, "w") as f:
        f.write("CONSTANTS\n  U = 16384\n  Slop = 2\n  Rects <- RectsDef\nSPECIFICATION Spec\nINVARIANT IndexInside\nCHECK_DEADLOCK FALSE\n")
    r = vf.tlc("Envelope", cfg, workers=4, gc="parallel")
    chk.add_mc("Envelope", r, consts)
    # the C01 lattice scenes, judged for safety only, plus the float-domain soups
    cases = os.path.join(d, "safe.ndjson")
    n = {"quick": 30000, "thorough": 600000}[tier]
    vf.run_harness(binpath, ["pipe", "gen", "--seed", vf.seed(), "--tier", tier, "--n", n, "safe"], stdout_path=cases)
    vf.exec_and_validate(chk, binpath, "pipe", "TV_Safe", cases, jvms=12, what="render call")
    # also in a plain release build (no debug assertions, wrapping arithmetic): what a user ships
    plain = vf.build_harness("plain")
    vf.exec_and_validate(chk, plain, "pipe", "TV_Safe", cases, jvms=12, what="render call (plain release build)")
    chk.cov["distinct_nontrivial"] = chk.cov["traces_validated_against_impl"]
    chk.cov["rule"] = ("seeded view-space triangle soups over the statement's domain (near 1e-3..10, far/near 2..1000, "
                       "|coordinate| <= 1000 near; vertices exactly on near/far/side planes, on the eye plane, behind the "
                       "camera, coincident, zero-area, sub-pixel and huge) through the library's own perspective / "
                       "orthographic and viewport matrices, buffers from 1x1, all viewport sub-rectangles, every context "
                       "flag combination, both target kinds; a wrapper Target records every scanline; TLC judges panic, "
                       "NaN and the bounding boxes of scanlines and touched pixels against the viewport")
    chk.cov["trusted_base"] = ["TLC + CommunityModules", "harness/src/pipe.rs recorder (bounding boxes, NaN count)"]
    chk.assumptions = ["the Envelope model abstracts each floating-point step by a +-1 unit perturbation in fixed point"]
    return chk.finish()
