"""C10 — mixing spaces, bases or units is a compile-time error."""
import json
import os
import subprocess

import vf

CORPUS = os.path.join(vf.HARNESS, "typecorpus")
TYPE_ERRORS = {"E0277", "E0308", "E0271", "E0369", "E0599", "E0282", "E0283", "E0284", "E0107", "E0061", "E0631", "E0605", "E0614", "E0600"}

MONO_OPS = {"TransposeRaw"}

BASIS = {"Model": "re::render::Model", "World": "re::render::World", "Unit": "()", "User": "crate::UserTag", "View": "re::render::View"}


def ty(t):
    k = t[0]
    if k == "Vec":
        return "re::math::vec::Vec%s<%s>" % (t[1], BASIS[t[2]])
    if k == "Pt":
        return "re::math::point::Point%s<%s>" % (t[1], BASIS[t[2]])
    if k == "Col":
        return "re::math::color::%s<re::math::color::%s>" % ("Color3" if t[1] == "u8" else "Color3f", t[2])
    if k == "Col4":
        return "re::math::color::Color<[%s; 4], re::math::color::%s>" % (t[1], t[2])
    if k == "Mat4":
        return "re::math::mat::Mat4x4<re::math::mat::RealToReal<3, %s, %s>>" % (BASIS[t[1]], BASIS[t[2]])
    if k == "Mat3":
        return "re::math::mat::Mat3x3<re::math::mat::RealToReal<2, %s, %s>>" % (BASIS[t[1]], BASIS[t[2]])
    if k == "MatP":
        return "re::math::mat::Mat4x4<re::math::mat::RealToProj<%s>>" % BASIS[t[1]]
    if k == "MatRaw":
        return ("re::math::mat::Matrix<[[f32; %s]; %s], re::math::mat::RealToReal<%s, re::render::Model, re::render::World>>"
                % (t[1], t[1], t[2]))
    if k == "Alias":
        return "re::math::mat::Mat4x4<re::render::%s>" % t[1]
    if k == "Polar":
        return "re::math::angle::PolarVec"
    if k == "Spherical":
        return "re::math::angle::SphericalVec"
    if k == "Angle":
        return "re::math::angle::Angle"
    if k == "F32":
        return "f32"
    if k == "ProjVec4":
        return "re::math::vec::ProjVec4"
    raise vf.ToolError("unknown type %r" % (t,))


EXPR = {
    "Add": "a + b", "Sub": "a - b", "Dot": "a.dot(&b)", "Lerp": "re::math::Lerp::lerp(&a, &b, 0.5)",
    "AffAdd": "re::math::space::Affine::add(&a, &b)", "AffSub": "re::math::space::Affine::sub(&a, &b)",
    "ToHsl": "a.to_hsl()", "ToRgb": "a.to_rgb()", "ToRgba": "a.to_rgba()", "ToColor3": "a.to_color3()",
    "ToLinear": "a.to_linear()", "ToSrgb": "a.to_srgb()",
    "Apply": "a.apply(&b)", "ApplyPt": "a.apply_pt(&b)", "Compose": "a.compose(&b)", "Then": "a.then(&b)",
    "Inverse": "a.inverse()", "Transpose": "a.transpose()", "Determinant": "a.determinant()",
    "RotateX": "re::math::mat::rotate_x(a)", "Sin": "re::math::angle::Angle::sin(a)",
    "PolarAz": "re::math::angle::polar(1.0, a)", "MulScalar": "a * b", "DivScalar": "a / b", "Rem": "a % b",
    "TransposeRaw": "a.transpose()",
    "AliasIs": "[a, b]", "ThenA": "a.then(&b)", "AddCart": "a + b.to_cart()", "AddInto": "a + b.into()",
    "Sum": "[a.clone(), a].into_iter().sum::<__T__>()",
    "CamMode": "re::render::cam::Camera::new((8, 8)).mode(a)", "CamModeTo": "re::render::cam::Camera::new((8, 8)).mode(a.to())",
}
# programs with a third type: two-step, or result bound to an annotated type
EXPR3 = {
    "SubThenAdd": ["let c: {t3} = mk();", "let d = re::math::space::Affine::sub(&a, &b);", "let _ = re::math::space::Affine::add(&c, &d);"],
    "ApplyPtRes": ["let _r: {t3} = a.apply_pt(&b);"],
    "ApplyRes": ["let _r: {t3} = a.apply(&b);"],
    "ComposeRes": ["let _r: {t3} = a.compose(&b);"],
    "SubRes": ["let _r: {t3} = a - b;"],
}

RENDER = """    use re::geom::{{Tri, Vertex}};
    let vs = |_: Vertex<re::math::point::Point3<re::render::Model>, ()>, _: ()| -> Vertex<{out}, f32> {{ mk() }};
    let fs = |_: re::render::raster::Frag<f32>| -> Option<re::math::color::Color4> {{ mk() }};
    let sh = re::render::shader::Shader::new(vs, fs);
    let mut target: re::util::buf::Buf2<u32> = mk();
    let tris: Vec<Tri<usize>> = mk();
    let verts: Vec<Vertex<re::math::point::Point3<re::render::Model>, ()>> = mk();
    re::render::render(&tris, &verts, &sh, (), mk(), &mut target, &mk::<re::render::Context>());
"""


RENDER_FS = """    use re::geom::{{Tri, Vertex}};
    let vs = |_: Vertex<re::math::point::Point3<re::render::Model>, ()>, _: ()| -> Vertex<re::math::vec::ProjVec4, f32> {{ mk() }};
    let fs = |_: re::render::raster::Frag<f32>| -> {out} {{ mk() }};
    let sh = re::render::shader::Shader::new(vs, fs);
    let mut target: re::util::buf::Buf2<u32> = mk();
    let tris: Vec<Tri<usize>> = mk();
    let verts: Vec<Vertex<re::math::point::Point3<re::render::Model>, ()>> = mk();
    re::render::render(&tris, &verts, &sh, (), mk(), &mut target, &mk::<re::render::Context>());
"""


def render_fn(i, prog):
    op, args = prog["op"], prog["args"]
    lines = ["pub fn p%d() {" % i]
    if op == "RenderFs":
        lines += RENDER_FS.format(out=ty(args[0])).rstrip("\n").split("\n")
    elif op == "Render":
        lines += RENDER.format(out=ty(args[0])).rstrip("\n").split("\n")
    else:
        for name, t in zip("ab", args):
            lines.append("    let %s: %s = mk();" % (name, ty(t)))
        if op in EXPR3:
            lines += ["    " + l.format(t3=ty(args[2])) for l in EXPR3[op]]
        else:
            lines.append("    let _ = %s;" % EXPR[op].replace("__T__", ty(args[0])))
    lines.append("}")
    return lines


def write_module(path, progs):
    """returns {fn index: (first line, last line)} (1-based)"""
    out = ["#![allow(unused)]", "fn mk<T>() -> T { unimplemented!() }", ""]
    spans = {}
    for i, p in progs:
        ls = render_fn(i, p)
        spans[i] = (len(out) + 1, len(out) + len(ls))
        out += ls + [""]
    with open(path, "w") as f:
        f.write("\n".join(out) + "\n")
    return spans


def cargo_check(feature, build=False):
    env = dict(os.environ, CARGO_NET_OFFLINE="true")
    p = subprocess.run(["cargo", "build" if build else "check", "--offline", "--lib", "--features", feature, "--message-format=json"],
                       cwd=CORPUS, env=env, stdout=subprocess.PIPE, stderr=subprocess.PIPE, text=True)
    errs = []
    for ln in p.stdout.splitlines():
        try:
            m = json.loads(ln)
        except ValueError:
            continue
        if m.get("reason") != "compiler-message":
            continue
        msg = m["message"]
        if msg.get("level") != "error":
            continue
        code = (msg.get("code") or {}).get("code")
        prim = [s for s in msg.get("spans", []) if s.get("is_primary")]
        errs.append({"code": code, "file": prim[0]["file_name"] if prim else None,
                     "line": prim[0]["line_start"] if prim else None, "text": msg.get("message", "")[:200]})
    return p.returncode, errs, p.stderr[-2000:]


def run(tier):
    chk = vf.Check("C10", tier)
    d = vf.outdir("c10")
    cfg = vf.write_cfg(os.path.join(d, "MC_Types.cfg"), {"Export": True},
                       invariants=["Inhabited", "HasTwin", "RenamingInvariant", "ExportInv"])
    r = vf.tlc("MC_Types", cfg, workers=4, gc="parallel")
    chk.add_mc("MC_Types", r, {})
    progs = []
    for ln in r.prints:
        t = vf.parse_print(ln)
        if t and t[0] == "REPLAY":
            progs.append(json.loads(t[1]))
    progs.sort(key=lambda p: json.dumps(p, sort_keys=True))
    if len(progs) < 100:
        raise vf.ToolError("MC_Types exported only %d programs" % len(progs))
    numbered = list(enumerate(progs))
    # programs whose rejection only shows when the function is instantiated are built one by one
    mono = [(i, p) for i, p in numbered if p["op"] in MONO_OPS]
    ok = [(i, p) for i, p in numbered if p["verdict"] == "accept" and p["op"] not in MONO_OPS]
    bad = [(i, p) for i, p in numbered if p["verdict"] == "reject" and p["op"] not in MONO_OPS]
    if len(mono) > 8:
        raise vf.ToolError("more mono programs than features in typecorpus/Cargo.toml")
    os.makedirs(os.path.join(CORPUS, "src"), exist_ok=True)
    spans_ok = write_module(os.path.join(CORPUS, "src", "ok.rs"), ok)
    spans_bad = write_module(os.path.join(CORPUS, "src", "bad.rs"), bad)
    with open(os.path.join(CORPUS, "src", "lib.rs"), "w") as f:
        f.write("// generated by py/c10.py from the programs exported by MC_Types\n"
                "/// a user-defined basis tag: a bare marker, no derives\npub enum UserTag {}\n"
                "#[cfg(feature = \"ok\")]\npub mod ok;\n#[cfg(feature = \"bad\")]\npub mod bad;\n")
        for j in range(len(mono)):
            f.write("#[cfg(feature = \"mono%d\")]\npub mod mono%d;\n" % (j, j))
    observed = {}
    for j, (i, p) in enumerate(mono):
        write_module(os.path.join(CORPUS, "src", "mono%d.rs" % j), [(i, p)])
        rc, errs, stderr = cargo_check("mono%d" % j, build=True)
        codes = {e["code"] for e in errs}
        if rc != 0 and not errs:
            raise vf.ToolError("cargo build failed without diagnostics: %s" % stderr)
        if errs and not codes <= (TYPE_ERRORS | {"E0080"}):
            raise vf.ToolError("bad template (not a type / const-evaluation error) in mono program p%d: %s" % (i, errs[:2]))
        observed[i] = "reject" if errs else "accept"
    vf.log("[rustc] %d programs built one by one (rejection at instantiation time): %d rejected" % (
        len(mono), sum(1 for i, _ in mono if observed[i] == "reject")))
    for feature, spans, group in (("ok", spans_ok, ok), ("bad", spans_bad, bad)):
        rc, errs, stderr = cargo_check(feature)
        if rc != 0 and not errs:
            raise vf.ToolError("cargo check failed without diagnostics: %s" % stderr)
        hit = set()
        for e in errs:
            if e["file"] is None or not e["file"].endswith(feature + ".rs"):
                # an error outside the corpus: the library itself does not build
                raise vf.ToolError("compile error outside the corpus: %s" % e)
            owner = [i for i, (a, b) in spans.items() if a <= e["line"] <= b]
            if not owner:
                raise vf.ToolError("diagnostic outside every program: %s" % e)
            if e["code"] not in TYPE_ERRORS:
                raise vf.ToolError("bad template (not a type error) in p%d: %s" % (owner[0], e))
            hit.add(owner[0])
        for i, p in group:
            observed[i] = "reject" if i in hit else "accept"
        vf.log("[rustc] module %s: %d programs, %d with a type error" % (feature, len(group), len(hit)))
    trace = os.path.join(d, "trace.ndjson")
    recs = [{"k": "p%d" % i, "op": p["op"], "args": p["args"], "obs": observed[i], "cls": p["class"]} for i, p in numbered]
    vf.write_lines(trace, recs)
    nrec, nev, bad_recs = vf.validate_trace("TV_Types", trace, jvms=2)
    vf.log("[tv] %d programs judged by TV_Types: %d rejected" % (nrec, len(bad_recs)))
    chk.cov["traces_validated_against_impl"] = nrec
    chk.cov["evaluations"] = nrec
    for b in bad_recs:
        rec = b["record"]
        chk.violation(rec["k"], {"sub": "typecorpus", "record": rec, "source": "\n".join(render_fn(int(rec["k"][1:]), rec))},
                      what="program %s %s: the compiler says %s" % (rec["op"], json.dumps(rec["args"]), rec["obs"]))
    chk.cov["samples"] = [{"program": progs[0], "rust": render_fn(0, progs[0])}, {"program": bad[0][1], "rust": render_fn(bad[0][0], bad[0][1])}]
    chk.cov["distinct_nontrivial"] = len(bad)
    chk.cov["exhaustive"] = True
    chk.cov["rule"] = ("every program <<operation, argument types>> of the finite universe of spec/Types.tla (%d programs, %d "
                       "ill-typed in 9 misuse classes, each with a well-typed twin) is rendered to a Rust function and "
                       "type-checked by rustc against the real crate: the accepted module must compile without error, every "
                       "function of the rejected module must own a type error" % (len(progs), len(bad)))
    chk.cov["trusted_base"] = ["TLC + CommunityModules", "rustc diagnostics attributed to programs by line span", "the rendering templates in py/c10.py"]
    chk.assumptions = ["the universe of types and operations is the finite one of spec/Types.tla"]
    return chk.finish()


def replay(path):
    return run("quick")
