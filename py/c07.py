"""C07 — culling, write masks and statistics behave as configured."""
import c06


def run(tier):
    chk = c06.run_common(tier, "C07", "c07")
    chk.cov["rule"] = ("seeded lattice scenes as for C06 plus the reversed twin of a triangle; random histories of 2-4 "
                       "render calls on persistent planes with random face_cull / depth_test / color_write / depth_write / "
                       "discarding shader / sort, Framebuf and colour-only targets, render() and Batch::render(), unused "
                       "extra vertices; planes and accumulated statistics after every call judged by TLC; facing is "
                       "decided by TLC from the exact homogeneous determinant of the lattice vertices")
    chk.assumptions = ["footprints and piece counts of single triangles are taken from the implementation",
                       "the count of written fragments is not judged for sorted calls over overlapping depth ranges "
                       "(the specification does not fix the sort key) nor when fragments tie in depth",
                       "time and frames statistics are not part of the statement"]
    return chk.finish()
