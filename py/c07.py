"""C07 — culling, write masks and statistics behave as configured."""
import collections
import os

import c06
import vf


def stats_extra(chk, tier):
    """Growth beyond the statement: the Stats accumulator, its per-frame / per-second views and
    its renderings (Stats.tla).  Rejections are notes, never alarms."""
    binpath = vf.build_harness()
    d = vf.outdir("c07")
    cfg = vf.write_cfg(os.path.join(d, "MC_Stats.cfg"), None, invariants=["OrderFree", "Done"])
    r = vf.tlc("MC_Stats", cfg, workers=4, gc="parallel", heap="4g")
    chk.add_mc("MC_Stats (extra coverage)", r, {})
    cases = os.path.join(d, "stats.ndjson")
    vf.run_harness(binpath, ["stats", "gen", "--seed", vf.seed(), "--tier", tier], stdout_path=cases)
    vf.run_harness(binpath, ["stats", "exec", cases], stdout_path=cases + ".trace")
    nrec, nev, bad = vf.validate_trace("TV_Stats", cases + ".trace", jvms=4)
    byop = collections.Counter(b["info"][1] for b in bad)
    vf.log("[tv] stats: %d histories / %d events judged by TV_Stats: %d rejected %s" % (nrec, nev, len(bad), dict(byop)))
    core = [b for b in bad if b["info"][1] in ("add", "per_frame", "per_sec", "pct")]
    for b in core[:5]:
        chk.note("extra-coverage: stats history %s rejected at %s: %s" % (b["key"], b["info"][1], str(b["info"][2])[:300]))
    if byop.get("time"):
        chk.note("extra-coverage: %d duration renderings rejected, e.g. %s (human_time rounds the minutes to nearest and "
                 "can print '60s'; the suite's own test pins 1234 s -> '21min 34s')" % (
                     byop["time"], next(str(b["info"][2])[:160] for b in bad if b["info"][1] == "time")))
    if byop.get("num"):
        chk.note("extra-coverage: %d count renderings rejected, e.g. %s (human_num prints 99 950..99 999 and "
                 "99.95M.. six characters wide)" % (
                     byop["num"], next(str(b["info"][2])[:160] for b in bad if b["info"][1] == "num")))
    chk.cov["extra_coverage"] = {"stats_histories": nrec, "stats_events": nev, "rejected_by_op": dict(byop)}


def run(tier):
    chk = c06.run_common(tier, "C07", "c07")
    chk.cov["rule"] = ("seeded lattice scenes as for C06 plus the reversed twin of a triangle; random histories of 2-4 "
                       "render calls on persistent planes with random face_cull / depth_test / color_write / depth_write / "
                       "discarding shader / sort, Framebuf and colour-only targets, render() and Batch::render(), unused "
                       "extra vertices; planes and accumulated statistics after every call judged by TLC; facing is "
                       "decided by TLC from the exact homogeneous determinant of the lattice vertices")
    chk.assumptions = ["footprints and piece counts of single triangles are taken from the implementation",
                       "the count of written fragments is not judged for sorted calls over overlapping depth ranges "
                       "(the specification does not fix the sort key) nor when fragments tie in depth",
                       "time and frames statistics are not part of the statement"]
    stats_extra(chk, tier)
    return chk.finish()
