"""C07 — culling, write masks and statistics behave as configured."""
import collections
import json
import os
import subprocess

import c06
import vf


def stats_extra(chk, tier):
    """Growth beyond the statement: the Stats accumulator, its per-frame / per-second views and
    its renderings (Stats.tla).  Rejections are notes, never alarms."""
    binpath = vf.build_harness()
    d = vf.outdir("c07")
    cfg = vf.write_cfg(os.path.join(d, "MC_Stats.cfg"), None, invariants=["OrderFree", "Done"])
    r = vf.tlc("MC_Stats", cfg, workers=4, gc="parallel", heap="4g")
    chk.add_mc("MC_Stats (extra coverage)", r, {})
    cases = os.path.join(d, "stats.ndjson")
    vf.run_harness(binpath, ["stats", "gen", "--seed", vf.seed(), "--tier", tier], stdout_path=cases)
    vf.run_harness(binpath, ["stats", "exec", cases], stdout_path=cases + ".trace")
    nrec, nev, bad = vf.validate_trace("TV_Stats", cases + ".trace", jvms=4)
    byop = collections.Counter(b["info"][1] for b in bad)
    vf.log("[tv] stats: %d histories / %d events judged by TV_Stats: %d rejected %s" % (nrec, nev, len(bad), dict(byop)))
    core = [b for b in bad if b["info"][1] in ("add", "per_frame", "per_sec", "pct")]
    for b in core[:5]:
        chk.note("extra-coverage: stats history %s rejected at %s: %s" % (b["key"], b["info"][1], str(b["info"][2])[:300]))
    if byop.get("time"):
        chk.note("extra-coverage: %d duration renderings rejected, e.g. %s (human_time rounds the minutes to nearest and "
                 "can print '60s'; the suite's own test pins 1234 s -> '21min 34s')" % (
                     byop["time"], next(str(b["info"][2])[:160] for b in bad if b["info"][1] == "time")))
    if byop.get("num"):
        chk.note("extra-coverage: %d count renderings rejected, e.g. %s (human_num prints 99 950..99 999 and "
                 "99.95M.. six characters wide)" % (
                     byop["num"], next(str(b["info"][2])[:160] for b in bad if b["info"][1] == "num")))
    chk.cov.setdefault("extra_coverage", {}).update({"stats_histories": nrec, "stats_events": nev, "rejected_by_op": dict(byop)})


BATCHPROG = os.path.join(vf.HARNESS, "batchprog")
OPLINE = {
    "faces": "let mut b = b.faces(faces(%d));", "vertices": "let mut b = b.vertices(verts(%d));",
    "mesh": "let mut b = b.mesh(&mesh(%d));", "uniform": "let mut b = b.uniform(uni(%d));",
    "shader": "let mut b = b.shader(shader(%d));", "viewport": "let mut b = b.viewport(vp(%d));",
    "target": "let mut b = b.target(unsafe { &mut *p%d });", "context": "let mut b = b.context(&c%d);",
}
# calls the typestate does not offer (each built on its own: it must not compile), and offered twins
NEG_PROGS = [
    [("shader", 1)], [("vertices", 1), ("shader", 1)], [("uniform", 2), ("shader", 2)],
    [("vertices", 1), ("uniform", 1), ("shader", 1), ("render", 0)],
    [("vertices", 2), ("uniform", 1), ("target", 1), ("render", 0)],
    [("mesh", 1), ("target", 2), ("context", 1), ("render", 0)],
    [("vertices", 1), ("uniform", 1), ("shader", 1), ("target", 1), ("render", 0)],      # offered
    [("mesh", 2), ("uniform", 2), ("shader", 2), ("context", 2), ("target", 2), ("render", 0), ("faces", 2), ("render", 0)],  # offered
]


def batch_fn(name, ops, draws, key):
    ls = ["pub fn %s(out: &mut Vec<Value>) {" % name,
          "    let (mut t1, mut t2) = (fb(), fb());", "    let (c1, c2) = (ctx(1), ctx(2));",
          "    let (p1, p2): (*mut Fb, *mut Fb) = (&mut t1, &mut t2);", "    let mut panics: Vec<u8> = vec![];", "    {",
          "        let mut b = Batch::new();"]
    for c in ops:
        ls.append("        " + ("panics.push(run(|| b.render()));" if c["op"] == "render" else OPLINE[c["op"]] % c["i"]))
    ls += ["        let _ = (&mut b, p1, p2);", "    }"]
    refs = ["&[%s]" % ", ".join("(%d, %d, %d, %d, %d, %d)" % (d["f"], d["v"], d["u"], d["s"], d["vp"], d["c"]) for d in dr) for dr in draws]
    ls.append("    finish(out, %s, %s, &t1, &t2, &c1, &c2, panics, [%s, %s]);" % (
        json.dumps(key), json.dumps(json.dumps(ops, separators=(",", ":"))), refs[0], refs[1]))
    ls.append("}")
    return ls


def cargo_batch(args):
    env = dict(os.environ, CARGO_NET_OFFLINE="true")
    return subprocess.run(["cargo"] + args, cwd=BATCHPROG, env=env, stdout=subprocess.PIPE, stderr=subprocess.PIPE, text=True)


def batch_extra(chk, tier):
    """Growth beyond the statement: the render-batch builder as a typestate machine (BatchB.tla).  TLC explores
    the machine and generates histories; each becomes a Rust function (so the compiler checks the typestate),
    run against the real builder; pictures and statistics are judged by TV_BatchB.  Rejections are notes."""
    d = vf.outdir("c07")
    cons = {"MaxOps": 5 if tier == "quick" else 7, "Export": "FALSE"}
    cfg = vf.write_cfg(os.path.join(d, "MC_BatchB.cfg"), cons, invariants=["Laws"], view="View")
    r = vf.tlc("MC_BatchB", cfg, workers=6, gc="parallel", heap="6g")
    chk.add_mc("MC_BatchB (extra coverage)", r, cons)
    scons = {"MaxOps": 14, "Export": "TRUE"}
    scfg = vf.write_cfg(os.path.join(d, "MC_BatchB_sim.cfg"), scons, invariants=["ExportInv"])
    rs = vf.tlc("MC_BatchB", scfg, workers=1, simulate="num=%d" % (300 if tier == "quick" else 2000),
                extra=["-depth", "16", "-seed", str(int(vf.seed()) + 11)], tag="MC_BatchB_sim")
    hist = {}
    for ln in rs.prints:
        t = vf.parse_print(ln)
        if t and t[0] == "REPLAY":
            hist[t[1]] = json.loads(t[1])
    keys = sorted(hist)
    want = 400 if tier == "quick" else 3000
    step = max(1, len(keys) // want)
    chosen = [hist[k] for k in keys[::step]][:want]
    if len(chosen) < 50:
        raise vf.ToolError("MC_BatchB simulation exported only %d histories" % len(chosen))
    src = ["// GENERATED by py/c07.py from histories exported by spec/MC_BatchB.tla - do not edit", "#![allow(unused_mut, unused_variables, unused_assignments)]",
           "use crate::rt::*;", ""]
    for i, h in enumerate(chosen):
        src += batch_fn("p%d" % i, h["ops"], h["draws"], "bp%d" % i) + [""]
    src.append("pub fn run_all(out: &mut Vec<Value>) {")
    src += ["    p%d(out);" % i for i in range(len(chosen))]
    src.append("}")
    with open(os.path.join(BATCHPROG, "src", "progs.rs"), "w") as f:
        f.write("\n".join(src) + "\n")
    for j in range(8):
        with open(os.path.join(BATCHPROG, "src", "neg%d.rs" % j), "w") as f:
            ops = [{"op": o, "i": i} for o, i in NEG_PROGS[j]]
            f.write("// GENERATED by py/c07.py\n#![allow(unused_mut, unused_variables, dead_code)]\nuse crate::rt::*;\n\n"
                    + "\n".join(batch_fn("neg", ops, [[], []], "neg%d" % j)) + "\n")
    p = cargo_batch(["build", "--release", "--offline"])
    if p.returncode != 0:
        # a history TLC says is offered does not compile: that is an observation, not a tool failure
        chk.note("extra-coverage: the generated batch programs do not compile against this tree: %s" % p.stderr[-600:])
        chk.cov.setdefault("extra_coverage", {})["batch_histories"] = 0
        return
    trace = os.path.join(d, "batch.trace.ndjson")
    out = vf.run_harness(os.path.join(BATCHPROG, "target", "release", "batchprog"), [])
    recs = [json.loads(l) for l in out.splitlines() if l.strip()]
    drew = sum(1 for e in recs if sum(e["nonblank"]) > 0)
    # the compile-only programs, one build each
    for j in range(8):
        p = cargo_batch(["check", "--release", "--offline", "--features", "neg%d" % j, "--message-format=short"])
        bad_other = p.returncode != 0 and not any(c in p.stderr for c in ("E0277", "E0599", "E0308", "E0271", "E0282", "E0283"))
        if bad_other:
            raise vf.ToolError("compile-only batch program neg%d failed without a type error: %s" % (j, p.stderr[-400:]))
        recs.append({"k": "neg%d" % j, "ops": [{"op": o, "i": i} for o, i in NEG_PROGS[j]], "compiled": 1 if p.returncode == 0 else 0})
    vf.write_lines(trace, recs)
    nrec, nev, bad = vf.validate_trace("TV_BatchB", trace, jvms=4)
    vf.log("[tv] batch builder: %d histories / %d calls (TLC-generated, compiled, run) judged by TV_BatchB: %d rejected; %d drew pixels" % (
        nrec, nev, len(bad), drew))
    for b in bad[:5]:
        chk.note("extra-coverage: batch history %s rejected (%s): %s" % (b["key"], b["info"][0], str(b["info"][1])[:300]))
    chk.cov.setdefault("extra_coverage", {}).update({"batch_histories": nrec, "batch_calls": nev, "batch_rejected": len(bad),
                                                     "batch_histories_that_drew": drew})


def run(tier):
    chk = c06.run_common(tier, "C07", "c07")
    chk.cov["rule"] = ("seeded lattice scenes as for C06 plus the reversed twin of a triangle; random histories of 2-4 "
                       "render calls on persistent planes with random face_cull / depth_test / color_write / depth_write / "
                       "discarding shader / sort, Framebuf and colour-only targets, render() and Batch::render(), unused "
                       "extra vertices; planes and accumulated statistics after every call judged by TLC; facing is "
                       "decided by TLC from the exact homogeneous determinant of the lattice vertices")
    chk.assumptions = ["footprints and piece counts of single triangles are taken from the implementation",
                       "the count of written fragments is not judged for sorted calls over overlapping depth ranges "
                       "(the specification does not fix the sort key) nor when fragments tie in depth",
                       "time and frames statistics are not part of the statement"]
    stats_extra(chk, tier)
    try:
        batch_extra(chk, tier)
    except (vf.ToolError, vf.HarnessHang, OSError, ValueError, KeyError) as ex:
        # extra coverage never decides the property: its failure is reported, not raised
        vf.log("[extra] batch builder step failed: %s" % str(ex)[:500])
        chk.note("extra-coverage: the batch builder step did not complete: %s" % str(ex)[:300])
    return chk.finish()
