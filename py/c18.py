"""C18 — angles convert, wrap and change coordinates consistently."""
import json
import os

import vf


def run(tier):
    chk = vf.Check("C18", tier)
    binpath = vf.build_harness()
    d = vf.outdir("c18")
    cfg = vf.write_cfg(os.path.join(d, "MC_Angle.cfg"), None, invariants=["WrapLaws"])
    r = vf.tlc("MC_Angle", cfg, workers=4, gc="parallel")
    chk.add_mc("MC_Angle", r, {})
    cases = os.path.join(d, "cases.ndjson")
    vf.run_harness(binpath, ["angle", "gen", "--seed", vf.seed(), "--tier", tier], stdout_path=cases)
    vf.exec_and_validate(chk, binpath, "angle", "TV_Angle", cases, jvms=8, what="observation")
    # Angle::wrap under the other float backends (libm - whose rem_euclid is the built-in fallback's - and micromath; Angle needs one of them):
    # wrap goes through the backend's rem_euclid, so each feature build is bound separately
    probe = os.path.join(vf.HARNESS, "floatprobe")
    wraps = os.path.join(d, "wrap_backends.ndjson")
    with open(wraps, "w") as fw:
        for name, feats in (("libm", ["libm"]), ("mm", ["mm"])):
            vf._built.pop(("release", probe, tuple(feats)), None)
            pb = vf.build_harness("release", crate=probe, features=feats, bin_name="floatprobe")
            fw.write(vf.run_harness(pb, [name, vf.seed(), "anglewrap" if tier == "quick" else "anglewrap-thorough"]))
    nrec, nev, badw = vf.validate_trace("TV_Angle", wraps, jvms=6)
    vf.log("[tv] wrap under the libm / mm backends: %d calls judged by TV_Angle: %d rejected" % (nrec, len(badw)))
    chk.cov["traces_validated_against_impl"] += nrec
    chk.cov["evaluations"] += nev
    for b in badw:
        chk.violation(b["key"], {"sub": "floatprobe-anglewrap", "record": b["record"]},
                      what="wrap call %s rejected by TV_Angle: %s" % (b["key"], json.dumps(b["record"])[:300]))
    chk.cov["distinct_nontrivial"] = chk.cov["traces_validated_against_impl"]
    chk.cov["rule"] = ("seeded sweeps: unit conversions over many revolutions (exact fractions of a turn and random), wrap of "
                       "angles over +-20 revolutions into 8 intervals (incl. exact multiples of the period and values one to "
                       "two periods below), arithmetic/min/max/clamp, sin_cos pairs, 2-D/3-D vectors over magnitudes 2^-6..2^6 "
                       "(axis-aligned, near-axis, near the +-180 degree seam) through to_polar/to_spherical and back, and "
                       "Pythagorean directions in all quadrants/octants through to_cart with exact integer expectations")
    chk.cov["trusted_base"] = ["TLC + CommunityModules", "harness/src/angle.rs recorder (power-of-two scaling)",
                               "std atan2 to name Pythagorean angles"]
    chk.assumptions = ["tolerances 1e-3 relative (std backend in the harness build)", "absolute trig accuracy is C20's subject"]
    return chk.finish()


def replay(path):
    obj = json.load(open(path))
    if obj.get("sub") == "floatprobe-anglewrap":
        # the "case" is a feature build of the probe: re-run the whole quick check
        return run("quick")
    return vf.replay("C18", path)
