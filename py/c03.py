"""C03 — frustum clipping returns exactly the inside part, attributes intact."""
import os

import vf


def run(tier):
    chk = vf.Check("C03", tier)
    binpath = vf.build_harness()
    d = vf.outdir("c03")
    cfg = vf.write_cfg(os.path.join(d, "MC_Clip.cfg"), None, invariants=["ExactInside", "AcceptsIdeal", "RejectsBroken"])
    r = vf.tlc("MC_Clip", cfg, workers=8, gc="parallel", heap="8g")
    chk.add_mc("MC_Clip", r, {})
    cases = os.path.join(d, "cases.ndjson")
    vf.run_harness(binpath, ["clip", "gen", "--seed", vf.seed(), "--tier", tier], stdout_path=cases)
    vf.exec_and_validate(chk, binpath, "clip", "TV_Clip", cases, jvms=12, what="clip call")
    if tier == "quick":
        # also in a plain release build (no debug assertions)
        vf.exec_and_validate(chk, vf.build_harness("plain"), "clip", "TV_Clip", cases, jvms=12, what="clip call (plain release build)")
    chk.cov["distinct_nontrivial"] = chk.cov["traces_validated_against_impl"]
    chk.cov["rule"] = ("seeded random lattice clip-space triangles (coordinates n/4, |n| <= 16, w positive, negative or "
                       "mixed, vertices inside, outside and exactly on planes) with two-component attributes, clipped "
                       "singly and inside batches of 1-5 triangles through view_frustum::clip; every output vertex is "
                       "recorded as barycentrics of the input triangle and judged by TLC (feasibility, winding, tight "
                       "boundary, sampled membership, attribute linearity, identity / emptiness / batch independence)")
    chk.cov["trusted_base"] = ["TLC + CommunityModules", "harness/src/clip.rs recorder incl. the least-squares "
                               "barycentric solve and the bitwise batch comparison"]
    chk.assumptions = ["lattice inputs; 'beyond rounding' is judged at 1e-3 of the largest plane distance",
                       "'no inside point lost' is decided by the tight-boundary certificate plus an 8x8 (empty output: "
                       "48x48) barycentric sample grid, not by exact area"]
    return chk.finish()
