"""C01 — the rendered image equals the ideal perspective-correct image."""
import os

import vf


def run(tier):
    chk = vf.Check("C01", tier)
    binpath = vf.build_harness()
    d = vf.outdir("c01")
    cfg = vf.write_cfg(os.path.join(d, "MC_Pipeline.cfg"), None, invariants=["Agree"])
    r = vf.tlc("MC_Pipeline", cfg, workers=8, gc="parallel", heap="8g")
    chk.add_mc("MC_Pipeline", r, {})
    cases = os.path.join(d, "cases.ndjson")
    n = {"quick": 2500, "thorough": 60000}[tier]
    vf.run_harness(binpath, ["pipe", "gen", "--seed", vf.seed(), "--tier", tier, "--n", n, "img"], stdout_path=cases)
    trace = cases + ".trace"
    nrec, nev, bad = vf.exec_and_validate(chk, binpath, "pipe", "TV_Image", cases, jvms=12, what="scene")
    chk.cov["distinct_nontrivial"] = nrec
    chk.cov["samples"] = [{"k": "i%d-0" % vf.seed(), "note": "first scene of out/c01/cases.ndjson: lattice triangles v (units 1/4), "
                           "attributes a, viewport vp, front door via; the trace adds img[y][x] = [class, attr*1024, depth*4096]"}]
    chk.cov["rule"] = ("seeded lattice scenes of 1-4 clip-space triangles (coordinates n/4, |n| <= 16, w of either sign, "
                       "crossing any subset of frustum planes), viewport sub-rectangles of buffers up to 12x10, Framebuf "
                       "and colour-only targets, entered through render(), Batch::render() and Camera::render(); every "
                       "pixel of every image is judged by TLC against the exact homogeneous-rasterisation image (KEEP / "
                       "attribute within 0.5 % of range / reciprocal depth within 0.2 %), ambiguous pixels skipped")
    chk.cov["trusted_base"] = ["TLC + CommunityModules", "harness/src/pipe.rs recorder (attribute smuggled bit-exactly through "
                               "the colour word; integer scaling; internal fan edges from the public clip API)"]
    chk.assumptions = ["lattice scenes (coordinate ratio up to 64:1)", "colour-only targets are judged only where exactly one "
                       "triangle is visible", "ambiguity bands are L1-widened"]
    return chk.finish()
